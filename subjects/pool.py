"""Catalogue of single-annotator pool strategies (DESIGN 3.5).

Every subject says how to build the strategy and the models it needs for a
given label encoding (missing_label, classes), whether it selects by
maximisation or by sampling, whether it scores samples independently
(sample-wise; used by C08) and which exceptions are documented rejections.
"""
import warnings

import numpy as np

NAN = float("nan")

# --------------------------------------------------------------------------
# data alphabets (DESIGN 3.1)
# --------------------------------------------------------------------------
POOLS = {
    "line4": [[0.0], [1.0], [2.0], [4.0]],
    "dup4": [[0.0], [0.0], [1.0], [1.0]],
    # two far-apart groups + a point in no-man's-land: kernel values underflow to exactly 0, so kernel classifiers give exactly
    # one-hot probabilities near a group and the uniform fall-back in between
    "far4": [[0.0], [0.5], [20.0], [40.0]],
    "far5": [[0.0], [0.5], [20.0], [40.0], [40.5]],
    "grid4": [[0.0, 0.0], [1.0, 0.0], [0.0, 1.0], [2.0, 2.0]],
    "const4": [[0.0, 1.0], [1.0, 1.0], [2.0, 1.0], [4.0, 1.0]],
    "same4": [[1.0, 1.0]] * 4,
    "line5": [[0.0], [1.0], [2.0], [4.0], [7.0]],
    "dup5": [[0.0], [0.0], [1.0], [1.0], [3.0]],
    "grid5": [[0.0, 0.0], [1.0, 0.0], [0.0, 1.0], [2.0, 2.0], [3.0, 1.0]],
    "const5": [[0.0, 1.0], [1.0, 1.0], [2.0, 1.0], [4.0, 1.0], [5.0, 1.0]],
    "same5": [[1.0, 1.0]] * 5,
    "dup6": [[0.0], [0.0], [1.0], [1.0], [3.0], [3.0]],
}
FOREIGN_ROW = {1: [9.0], 2: [9.0, -3.0]}


def pool(name):
    return np.array(POOLS[name], dtype=float)


def labelings(n, values=(None, 0, 1)):
    import itertools

    return list(itertools.product(values, repeat=n))


def make_y(lab, task="clf"):
    """lab: tuple over {None, 0, 1, (2)} -> float array with NaN for None;
    regression maps class k to 1.5*k."""
    if task == "reg":
        return np.array([NAN if v is None else 1.5 * v for v in lab], dtype=float)
    return np.array([NAN if v is None else float(v) for v in lab], dtype=float)


# --------------------------------------------------------------------------
# models
# --------------------------------------------------------------------------
def _pwc(classes, missing_label=NAN, **kw):
    from skactiveml.classifier import ParzenWindowClassifier

    kw.setdefault("metric_dict", {"gamma": 0.5})
    return ParzenWindowClassifier(classes=classes, missing_label=missing_label, random_state=0, **kw)


def _logreg(classes, missing_label=NAN):
    from sklearn.linear_model import LogisticRegression

    from skactiveml.classifier import SklearnClassifier

    return SklearnClassifier(LogisticRegression(random_state=0, max_iter=50), classes=classes, missing_label=missing_label, random_state=0)


def _gnb(classes, missing_label=NAN):
    from sklearn.naive_bayes import GaussianNB

    from skactiveml.classifier import SklearnClassifier

    return SklearnClassifier(GaussianNB(var_smoothing=1.0), classes=classes, missing_label=missing_label, random_state=0)


def _ensemble_list(classes, missing_label=NAN):
    return [_pwc(classes, missing_label, metric_dict={"gamma": g}) for g in (0.1, 0.7, 3.0)]


def _ensemble_bag(classes, missing_label=NAN):
    from sklearn.ensemble import BaggingClassifier
    from sklearn.tree import DecisionTreeClassifier

    from skactiveml.classifier import SklearnClassifier

    return SklearnClassifier(
        BaggingClassifier(DecisionTreeClassifier(max_depth=2, random_state=0), n_estimators=3, random_state=0), classes=classes, missing_label=missing_label, random_state=0
    )


def _nic(missing_label=NAN):
    from skactiveml.regressor import NICKernelRegressor

    return NICKernelRegressor(metric_dict={"gamma": 0.5}, missing_label=missing_label, random_state=0)


def _tree_reg(missing_label=NAN):
    from sklearn.tree import DecisionTreeRegressor

    from skactiveml.regressor import SklearnRegressor

    return SklearnRegressor(DecisionTreeRegressor(min_samples_leaf=1, random_state=0), missing_label=missing_label, random_state=0)


_MIX_CACHE = {}


def _mixture(classes, X, missing_label=NAN):
    """MixtureModelClassifier with a *pre-fitted* 2-component mixture (fitted
    on X once per pool; the strategy never refits the mixture)."""
    from sklearn.mixture import GaussianMixture

    from skactiveml.classifier import MixtureModelClassifier

    key = X.tobytes()
    if key not in _MIX_CACHE:
        with warnings.catch_warnings():
            warnings.simplefilter("ignore")
            gm = GaussianMixture(n_components=2, random_state=0, reg_covar=1e-2, n_init=1, max_iter=20)
            gm.fit(X)
        _MIX_CACHE[key] = gm
    import copy

    return MixtureModelClassifier(mixture_model=copy.deepcopy(_MIX_CACHE[key]), classes=classes, missing_label=missing_label, random_state=0)


# --------------------------------------------------------------------------
# subjects
# --------------------------------------------------------------------------
class Subject:
    def __init__(self, name, cls, ctor=None, model=None, task="clf", select="max", samplewise=False, needs_classes=False,
                 cost=1.0, query_extra=None, min_features=1, two_class_only=False, arbitrary_idx=None, subset_size=None,
                 quick=True):
        self.name = name
        self.cls = cls
        self.ctor = ctor or {}
        self.model = model  # None | 'pwc' | 'logreg' | 'ens_list' | 'ens_bag' | 'nic' | 'tree' | 'mixture' | 'disc'
        self.task = task
        self.select = select  # 'max' | 'sample'
        self.samplewise = samplewise
        self.needs_classes = needs_classes
        self.cost = cost
        self.query_extra = query_extra or {}
        self.two_class_only = two_class_only
        # may labeled samples be offered as index candidates?
        self.arbitrary_idx = samplewise if arbitrary_idx is None else arbitrary_idx
        # wrappers that select from a documented-size random subset of the candidates
        self.subset_size = subset_size
        self.quick = quick  # part of the quick tier?

    def n_selectable(self, n_cand):
        return n_cand if self.subset_size is None else self.subset_size(n_cand)

    def strategy_class(self):
        import skactiveml.pool as P

        return getattr(P, self.cls)

    def make(self, random_state=0, missing_label=NAN, classes=(0, 1)):
        import skactiveml.pool as P

        kw = dict(self.ctor)
        for k, v in list(kw.items()):
            if callable(v) and getattr(v, "_lazy", False):
                kw[k] = v(missing_label=missing_label, classes=list(classes))
        if self.needs_classes:
            kw["classes"] = list(classes)
        return getattr(P, self.cls)(missing_label=missing_label, random_state=random_state, **kw)

    def model_kwargs(self, X, missing_label=NAN, classes=(0, 1)):
        classes = list(classes)
        m = self.model
        if m is None:
            return {}
        if m == "pwc":
            return {"clf": _pwc(classes, missing_label)}
        if m == "logreg":
            return {"clf": _logreg(classes, missing_label)}
        if m == "gnb":
            return {"clf": _gnb(classes, missing_label)}
        if m == "mixture":
            return {"clf": _mixture(classes, X, missing_label)}
        if m == "ens_list":
            return {"ensemble": _ensemble_list(classes, missing_label)}
        if m == "ens_bag":
            return {"ensemble": _ensemble_bag(classes, missing_label)}
        if m == "nic":
            return {"reg": _nic(missing_label)}
        if m == "tree":
            return {"reg": _tree_reg(missing_label)}
        if m == "disc":
            from skactiveml.classifier import ParzenWindowClassifier

            # the sentinel is set consistently on the strategy and on every model that is handed to it (C09)
            return {"discriminator": ParzenWindowClassifier(metric_dict={"gamma": 0.5}, missing_label=missing_label, random_state=0)}
        raise KeyError(m)

    def query_kwargs(self, X, missing_label=NAN, classes=(0, 1)):
        kw = self.model_kwargs(X, missing_label, classes)
        kw.update(self.query_extra)
        return kw


def _lazy(f):
    f._lazy = True
    return f


KM = {"random_state": 0, "n_init": 1}


def _inner_us(missing_label, classes):
    import skactiveml.pool as P

    return P.UncertaintySampling(method="entropy", missing_label=missing_label, random_state=0)


def _inner_rs(missing_label, classes):
    import skactiveml.pool as P

    return P.RandomSampling(missing_label=missing_label, random_state=0)


SUBJECTS = [
    Subject("RandomSampling", "RandomSampling", samplewise=True, select="sample"),
    Subject("UncertaintySampling[least_confident]", "UncertaintySampling", {"method": "least_confident"}, "pwc", samplewise=True),
    Subject("UncertaintySampling[margin_sampling]", "UncertaintySampling", {"method": "margin_sampling"}, "pwc", samplewise=True),
    Subject("UncertaintySampling[entropy]", "UncertaintySampling", {"method": "entropy"}, "pwc", samplewise=True),
    Subject("UncertaintySampling[expected_average_precision]", "UncertaintySampling", {"method": "expected_average_precision"}, "pwc",
            arbitrary_idx=True),
    Subject("UncertaintySampling[entropy,logreg]", "UncertaintySampling", {"method": "entropy"}, "logreg", samplewise=True, cost=2),
    Subject("ProbabilisticAL", "ProbabilisticAL", {}, "pwc", samplewise=True),
    Subject("EpistemicUncertaintySampling", "EpistemicUncertaintySampling", {}, "pwc", samplewise=True, two_class_only=True),
    Subject("EpistemicUncertaintySampling[precompute]", "EpistemicUncertaintySampling", {"precompute": True}, "pwc", samplewise=True,
            two_class_only=True),
    Subject("EpistemicUncertaintySampling[logreg]", "EpistemicUncertaintySampling", {}, "logreg", samplewise=True, two_class_only=True, cost=20,
            quick=False),
    Subject("MonteCarloEER[misclassification_loss]", "MonteCarloEER", {"method": "misclassification_loss"}, "pwc", samplewise=True, cost=5),
    Subject("MonteCarloEER[log_loss]", "MonteCarloEER", {"method": "log_loss"}, "pwc", samplewise=True, cost=5),
    Subject("MonteCarloEER[subtract_current]", "MonteCarloEER", {"subtract_current": True}, "pwc", samplewise=True, cost=5),
    # the incremental path of the index wrapper (native partial_fit of the wrapped classifier instead of re-fitting)
    Subject("MonteCarloEER[gnb,partial_fit]", "MonteCarloEER", {"method": "misclassification_loss"}, "gnb", samplewise=True, cost=5,
            query_extra={"ignore_partial_fit": False}),
    Subject("ValueOfInformationEER", "ValueOfInformationEER", {}, "pwc", samplewise=True, cost=5),
    Subject("ValueOfInformationEER[subtract_current,normalize]", "ValueOfInformationEER", {"subtract_current": True, "normalize": True}, "pwc",
            samplewise=True, cost=5),
    Subject("QueryByCommittee[KL_divergence]", "QueryByCommittee", {"method": "KL_divergence"}, "ens_list", samplewise=True, cost=2),
    Subject("QueryByCommittee[vote_entropy]", "QueryByCommittee", {"method": "vote_entropy"}, "ens_list", samplewise=True, cost=2),
    Subject("QueryByCommittee[variation_ratios]", "QueryByCommittee", {"method": "variation_ratios"}, "ens_list", samplewise=True, cost=2),
    Subject("QueryByCommittee[KL_divergence,bagging]", "QueryByCommittee", {"method": "KL_divergence"}, "ens_bag", samplewise=False,
            arbitrary_idx=True, cost=4),
    Subject("Quire", "Quire", {"metric_dict": {"gamma": 0.5}}, None, samplewise=True, needs_classes=True, arbitrary_idx=False),
    Subject("FourDs", "FourDs", {}, "mixture", samplewise=False, cost=2),
    Subject("CostEmbeddingAL", "CostEmbeddingAL", {"mds_params": {"n_init": 1, "max_iter": 30}}, None, samplewise=True, needs_classes=True, cost=6),
    Subject("ExpectedModelChangeMaximization", "ExpectedModelChangeMaximization", {}, "nic", task="reg", samplewise=True, cost=3),
    Subject("ExpectedModelOutputChange", "ExpectedModelOutputChange", {}, "nic", task="reg", samplewise=True, cost=3),
    Subject("ExpectedModelVarianceReduction", "ExpectedModelVarianceReduction", {}, "nic", task="reg", samplewise=True, cost=3),
    Subject("KLDivergenceMaximization", "KLDivergenceMaximization", {}, "nic", task="reg", samplewise=True, cost=6),
    Subject("GreedySamplingX", "GreedySamplingX", {}, None, task="reg", samplewise=True),
    Subject("GreedySamplingTarget[GSy]", "GreedySamplingTarget", {"method": "GSy"}, "nic", task="reg", samplewise=True, cost=2),
    Subject("GreedySamplingTarget[GSi]", "GreedySamplingTarget", {"method": "GSi"}, "nic", task="reg", samplewise=True, cost=2),
    Subject("GreedySamplingTarget[default]", "GreedySamplingTarget", {}, "nic", task="reg", samplewise=True, cost=2),
    Subject("DiscriminativeAL", "DiscriminativeAL", {"greedy_selection": False}, "disc", samplewise=True, arbitrary_idx=False, cost=2),
    Subject("DiscriminativeAL[greedy]", "DiscriminativeAL", {"greedy_selection": True}, "disc", samplewise=True, arbitrary_idx=False, cost=2),
    Subject("BatchBALD", "BatchBALD", {}, "ens_list", samplewise=False, arbitrary_idx=True, cost=2),
    Subject("GreedyBALD", "GreedyBALD", {}, "ens_list", samplewise=True, cost=2),
    Subject("Clue", "Clue", {"cluster_algo_dict": KM}, "pwc", samplewise=False, cost=2),
    Subject("DropQuery", "DropQuery", {"cluster_algo_dict": KM}, "pwc", samplewise=False, cost=2),
    Subject("CoreSet", "CoreSet", {}, None, samplewise=True, arbitrary_idx=False),
    Subject("TypiClust", "TypiClust", {"cluster_algo_dict": KM}, None, samplewise=False),
    Subject("Badge", "Badge", {}, "pwc", select="sample", samplewise=False),
    Subject("ProbCover", "ProbCover", {"cluster_algo_dict": KM}, None, samplewise=False),
    Subject("ContrastiveAL", "ContrastiveAL", {}, "pwc", samplewise=True),
    Subject("Falcun", "Falcun", {}, "pwc", select="sample", samplewise=False),
    # non-default modes of the constructors
    Subject("Falcun[gamma=0]", "Falcun", {"gamma": 0}, "pwc", select="sample", samplewise=False),
    Subject("GreedySamplingTarget[GSi,n_GSx_samples=2]", "GreedySamplingTarget", {"method": "GSi", "n_GSx_samples": 2}, "nic", task="reg",
            samplewise=True, cost=2),
    Subject("ProbabilisticAL[m_max=2,prior=0.5]", "ProbabilisticAL", {"m_max": 2, "prior": 0.5}, "pwc", samplewise=True),
    Subject("UncertaintySampling[least_confident,cost_matrix]", "UncertaintySampling", {"method": "least_confident", "cost_matrix": [[0, 2], [1, 0]]},
            "pwc", samplewise=True),
    Subject("ValueOfInformationEER[labeled only]", "ValueOfInformationEER", {"consider_unlabeled": False, "candidate_to_labeled": False}, "pwc",
            samplewise=True, cost=5),
    Subject("RegressionTreeBasedAL[random]", "RegressionTreeBasedAL", {"method": "random"}, "tree", task="reg", select="sample", cost=2),
    Subject("RegressionTreeBasedAL[diversity]", "RegressionTreeBasedAL", {"method": "diversity"}, "tree", task="reg", select="max", cost=2),
    Subject("RegressionTreeBasedAL[representativity]", "RegressionTreeBasedAL", {"method": "representativity"}, "tree", task="reg",
            select="max", cost=2),
    Subject("SubSamplingWrapper[US,2]", "SubSamplingWrapper", {"query_strategy": _lazy(_inner_us), "max_candidates": 2}, "pwc", cost=1,
            subset_size=lambda n: min(2, n)),
    Subject("SubSamplingWrapper[US,0.5,exclude]", "SubSamplingWrapper",
            {"query_strategy": _lazy(_inner_us), "max_candidates": 0.5, "exclude_non_subsample": True}, "pwc", cost=1,
            subset_size=lambda n: min(n, -(-n // 2))),
    Subject("ParallelUtilityEstimationWrapper[US,1]", "ParallelUtilityEstimationWrapper",
            {"query_strategy": _lazy(_inner_us), "n_jobs": 1}, "pwc", samplewise=True, cost=2),
]
BY_NAME = {s.name: s for s in SUBJECTS}


def check_complete():
    """Every exported single-annotator pool strategy has a descriptor."""
    import inspect

    import skactiveml.pool as P
    from skactiveml.base import SingleAnnotatorPoolQueryStrategy

    have = {s.cls for s in SUBJECTS}
    missing = []
    for n in P.__all__:
        o = getattr(P, n)
        if inspect.isclass(o) and issubclass(o, SingleAnnotatorPoolQueryStrategy) and n not in have:
            missing.append(n)
    return missing
