"""Catalogue of classifiers and regressors (DESIGN 3.5)."""
import warnings

import numpy as np

NAN = float("nan")

TRAIN_POOLS = {
    "line4": [[0.0], [1.0], [2.0], [4.0]],
    "dup4": [[0.0], [0.0], [1.0], [1.0]],
    "grid4": [[0.0, 0.0], [1.0, 0.0], [0.0, 1.0], [2.0, 2.0]],
}
FAR = {1: [60.0], 2: [60.0, -60.0]}
MIDFAR = {1: [14.0], 2: [12.0, -6.0]}  # gamma * d^2 between 36 and 745: exp(-.) is positive and < 1e-16


class ClfSubject:
    def __init__(self, name, factory, kernel=False, freq=False, multi=False, own_proba=True, partial=False, cost=1.0, quick=True,
                 supports_weights=True, supervised=False, window=None, only_labeled=False):
        self.name = name
        self.factory = factory  # (classes, missing_label, cost_matrix, random_state) -> classifier
        self.kernel = kernel  # far query points are meaningful (kernel underflow)
        self.freq = freq  # has predict_freq
        self.multi = multi  # y is (n_samples, n_annotators)
        self.own_proba = own_proba  # estimates probabilities itself (uniform without labels)
        self.partial = partial
        self.cost = cost
        self.quick = quick
        self.supports_weights = supports_weights
        self.supervised = supervised  # purely supervised learner (C12)
        self.window = window  # sliding window size: the effective training set is the last `window` samples
        self.only_labeled = only_labeled  # ... the last `window` *labeled* samples (unlabeled ones are discarded on arrival)

    def make(self, classes=None, missing_label=NAN, cost_matrix=None, random_state=0):
        return self.factory(classes, missing_label, cost_matrix, random_state)


def _pwc(**kw):
    def f(classes, ml, cm, rs):
        from skactiveml.classifier import ParzenWindowClassifier

        k = dict(metric_dict={"gamma": 0.5})
        k.update(kw)
        if k.get("metric") == "linear":
            k["metric_dict"] = None
        if k.get("metric_dict") is not None:
            k["metric_dict"] = dict(k["metric_dict"])  # every classifier gets its own dict
        return ParzenWindowClassifier(classes=classes, missing_label=ml, cost_matrix=cm, random_state=rs, **k)

    return f


def _mix(mode):
    def f(classes, ml, cm, rs):
        from sklearn.mixture import GaussianMixture

        from skactiveml.classifier import MixtureModelClassifier

        gm = GaussianMixture(n_components=2, random_state=0, reg_covar=1e-2, n_init=1, max_iter=20)
        return MixtureModelClassifier(mixture_model=gm, weight_mode=mode, classes=classes, missing_label=ml, cost_matrix=cm, random_state=rs)

    return f


def _sk(est_name):
    def f(classes, ml, cm, rs):
        from skactiveml.classifier import SklearnClassifier

        return SklearnClassifier(_est(est_name), classes=classes, missing_label=ml, cost_matrix=cm, random_state=rs)

    return f


def _est(name):
    if name == "logreg":
        from sklearn.linear_model import LogisticRegression

        return LogisticRegression(random_state=0, max_iter=100)
    if name == "gnb":
        from sklearn.naive_bayes import GaussianNB

        return GaussianNB()
    if name == "tree":
        from sklearn.tree import DecisionTreeClassifier

        return DecisionTreeClassifier(random_state=0)
    if name == "sgd_warm":
        from sklearn.linear_model import SGDClassifier

        return SGDClassifier(loss="log_loss", warm_start=True, max_iter=3, tol=None, random_state=0)
    if name == "forest_rs":
        from sklearn.ensemble import RandomForestClassifier

        return RandomForestClassifier(n_estimators=3, random_state=np.random.RandomState(3))
    raise KeyError(name)


def _slide(classes, ml, cm, rs, only_labeled=False):
    from skactiveml.classifier import ParzenWindowClassifier, SlidingWindowClassifier

    return SlidingWindowClassifier(ParzenWindowClassifier(classes=classes, missing_label=ml, cost_matrix=cm, metric_dict={"gamma": 0.5},
                                                          random_state=0),
                                   classes=classes, missing_label=ml, cost_matrix=cm, window_size=3, only_labeled=only_labeled, random_state=rs)


def _slide_only(classes, ml, cm, rs):
    return _slide(classes, ml, cm, rs, only_labeled=True)


def _aec(voting):
    def f(classes, ml, cm, rs):
        from skactiveml.classifier import ParzenWindowClassifier
        from skactiveml.classifier.multiannotator import AnnotatorEnsembleClassifier

        ests = [("a%d" % i, ParzenWindowClassifier(metric_dict={"gamma": 0.5}, missing_label=ml, random_state=0)) for i in range(2)]
        return AnnotatorEnsembleClassifier(ests, voting=voting, classes=classes, missing_label=ml, cost_matrix=cm, random_state=rs)

    return f


def _alr(classes, ml, cm, rs):
    from skactiveml.classifier.multiannotator import AnnotatorLogisticRegression

    return AnnotatorLogisticRegression(max_iter=20, classes=classes, missing_label=ml, cost_matrix=cm, random_state=rs)


CLASSIFIERS = [
    ClfSubject("ParzenWindowClassifier", _pwc(), kernel=True, freq=True, supervised=True),
    ClfSubject("ParzenWindowClassifier[n_neighbors=1]", _pwc(n_neighbors=1), kernel=True, freq=True),
    ClfSubject("ParzenWindowClassifier[class_prior=1]", _pwc(class_prior=1.0), kernel=True, freq=True),
    ClfSubject("ParzenWindowClassifier[linear]", _pwc(metric="linear"), kernel=False, freq=True, supervised=True),
    # a fixed bandwidth given as a numpy scalar that is not a Python float
    ClfSubject("ParzenWindowClassifier[gamma=np.float32]", _pwc(metric_dict={"gamma": np.float32(0.5)}), kernel=True, freq=True, supervised=True),
    ClfSubject("MixtureModelClassifier[responsibilities]", _mix("responsibilities"), kernel=True, freq=True, cost=3),
    ClfSubject("MixtureModelClassifier[similarities]", _mix("similarities"), kernel=True, freq=True, cost=3),
    ClfSubject("SklearnClassifier[LogisticRegression]", _sk("logreg"), cost=3, supervised=True),
    ClfSubject("SklearnClassifier[GaussianNB]", _sk("gnb"), partial=True, cost=2, supervised=True),
    ClfSubject("SklearnClassifier[DecisionTree]", _sk("tree"), cost=2, supervised=True),
    ClfSubject("SlidingWindowClassifier[PWC]", _slide, kernel=True, freq=True, partial=True, cost=2, window=3),
    ClfSubject("SlidingWindowClassifier[PWC,only_labeled]", _slide_only, kernel=True, freq=True, partial=True, cost=2, window=3, only_labeled=True),
    ClfSubject("AnnotatorEnsembleClassifier[hard]", _aec("hard"), multi=True, own_proba=False, cost=2),
    ClfSubject("AnnotatorEnsembleClassifier[soft]", _aec("soft"), multi=True, cost=2),
    ClfSubject("AnnotatorLogisticRegression", _alr, multi=True, cost=6, supervised=True),
]
# wrapped estimators whose own fit is NOT history-free (warm start, generator instance as random_state): only the wrapper's fresh copy of
# the caller's estimator makes a refit independent of earlier fits (used by the refit part of C12)
STATEFUL_CLASSIFIERS = [
    ClfSubject("SklearnClassifier[SGD,warm_start]", _sk("sgd_warm"), supervised=True),
    ClfSubject("SklearnClassifier[RandomForest,RandomState]", _sk("forest_rs"), cost=3, supervised=True),
]
CLF_BY_NAME = {c.name: c for c in CLASSIFIERS + STATEFUL_CLASSIFIERS}


# --------------------------------------------------------------------------
class RegSubject:
    def __init__(self, name, factory, probabilistic=True, kernel=False, proper_prior=False, wrapper=False, needs_label=False, cost=1.0,
                 supervised=True, partial=False):
        self.name = name
        self.factory = factory  # (missing_label, random_state) -> regressor
        self.probabilistic = probabilistic
        self.kernel = kernel
        self.proper_prior = proper_prior
        self.wrapper = wrapper
        self.needs_label = needs_label
        self.cost = cost
        self.supervised = supervised
        self.partial = partial

    def make(self, missing_label=NAN, random_state=0):
        return self.factory(missing_label, random_state)


def _nic(**kw):
    def f(ml, rs):
        from skactiveml.regressor import NICKernelRegressor

        return NICKernelRegressor(metric_dict={"gamma": 0.5}, missing_label=ml, random_state=rs, **kw)

    return f


def _nw(ml, rs):
    from skactiveml.regressor import NadarayaWatsonRegressor

    return NadarayaWatsonRegressor(metric_dict={"gamma": 0.5}, missing_label=ml, random_state=rs)


def _skr(name, normal=False):
    def f(ml, rs):
        from skactiveml.regressor import SklearnNormalRegressor, SklearnRegressor

        if name == "linreg":
            from sklearn.linear_model import LinearRegression

            est = LinearRegression()
        elif name == "bayes":
            from sklearn.linear_model import BayesianRidge

            est = BayesianRidge()
        elif name == "gp":
            from sklearn.gaussian_process import GaussianProcessRegressor

            est = GaussianProcessRegressor(random_state=0, optimizer=None)
        elif name == "sgd":
            from sklearn.linear_model import SGDRegressor

            est = SGDRegressor(random_state=0, max_iter=5, tol=None)
        elif name == "sgd_warm":
            from sklearn.linear_model import SGDRegressor

            est = SGDRegressor(random_state=0, max_iter=3, tol=None, warm_start=True)
        elif name == "forest_rs":
            from sklearn.ensemble import RandomForestRegressor

            est = RandomForestRegressor(n_estimators=3, random_state=np.random.RandomState(3))
        cls = SklearnNormalRegressor if normal else SklearnRegressor
        return cls(est, missing_label=ml, random_state=rs)

    return f


REGRESSORS = [
    RegSubject("NICKernelRegressor", _nic(), kernel=True, proper_prior=True),
    RegSubject("NICKernelRegressor[prior2]", _nic(mu_0=1.0, kappa_0=1.0, sigma_sq_0=2.0, nu_0=3.0), kernel=True, proper_prior=True),
    RegSubject("NICKernelRegressor[prior at 1.7e9]", _nic(mu_0=1.7e9, kappa_0=1.0, sigma_sq_0=2.0, nu_0=3.0), kernel=True, proper_prior=True),
    RegSubject("NICKernelRegressor[improper]", _nic(kappa_0=0.0, nu_0=0.0, sigma_sq_0=0.0), kernel=True, proper_prior=False),
    RegSubject("NadarayaWatsonRegressor", _nw, kernel=True, proper_prior=False, needs_label=True),
    RegSubject("SklearnRegressor[LinearRegression]", _skr("linreg"), probabilistic=False, wrapper=True),
    RegSubject("SklearnRegressor[SGD]", _skr("sgd"), probabilistic=False, wrapper=True, partial=True),
    RegSubject("SklearnNormalRegressor[BayesianRidge]", _skr("bayes", True), wrapper=True),
    RegSubject("SklearnNormalRegressor[GaussianProcess]", _skr("gp", True), wrapper=True, cost=2),
]
STATEFUL_REGRESSORS = [
    RegSubject("SklearnRegressor[SGD,warm_start]", _skr("sgd_warm"), probabilistic=False, wrapper=True),
    RegSubject("SklearnRegressor[RandomForest,RandomState]", _skr("forest_rs"), probabilistic=False, wrapper=True, cost=3),
]
REG_BY_NAME = {r.name: r for r in REGRESSORS + STATEFUL_REGRESSORS}


def check_complete():
    import skactiveml.classifier as C
    import skactiveml.classifier.multiannotator as CM
    import skactiveml.regressor as R

    have = {c.name.split("[")[0] for c in CLASSIFIERS} | {r.name.split("[")[0] for r in REGRESSORS}
    names = [n for n in C.__all__ if n != "multiannotator"] + list(CM.__all__) + list(R.__all__)
    return [n for n in names if n not in have]
