"""Catalogue of stream strategies and budget managers (DESIGN 3.5)."""
import warnings

import numpy as np

from mc import tape as T

NAN = float("nan")

# fixed tiny classifier for the stream strategies: two training points,
# candidate alphabet chosen so that utilities are low / high and the density
# windows accept / reject
_CLF = {}
CAND_POINTS = {"a": [0.0], "b": [2.0], "c": [2.1], "d": [6.0]}
UTIL_VALUES = {"l": 0.0, "m": 0.5, "h": 1.0, "n": NAN}
UTIL_VALUES_C03 = {"l": 0.05, "m": 0.5, "h": 0.95, "n": NAN}


def clf():
    if "pwc" not in _CLF:
        from skactiveml.classifier import ParzenWindowClassifier

        c = ParzenWindowClassifier(classes=[0, 1], metric_dict={"gamma": 0.5}, random_state=0)
        with warnings.catch_warnings():
            warnings.simplefilter("ignore")
            c.fit(np.array([[0.0], [4.0]]), np.array([0, 1]))
        _CLF["pwc"] = c
    return _CLF["pwc"]


class StreamSubject:
    def __init__(self, name, kind, factory, thresholds=(0.5,), bound=None, w=None, uses_normal=False, random=False,
                 update_utilities=False, chunk_invariant=False, util_map=None, exact_counters=False, quick=True, query_extra=None):
        self.name = name
        self.kind = kind  # 'manager' | 'strategy'
        self.factory = factory  # (budget, rng) -> object
        self.thresholds = thresholds  # callable(budget) -> thresholds of the uniform draws
        self.bound = bound  # 'window' | 'density' | 'exact' | None
        self.w = w
        self.uses_normal = uses_normal
        self.random = random
        self.update_utilities = update_utilities
        self.chunk_invariant = chunk_invariant
        self.exact_counters = exact_counters
        self.quick = quick
        self.query_extra = query_extra or {}

    def rng(self, budget, observe=None):
        th = self.thresholds(budget) if callable(self.thresholds) else self.thresholds
        return T.StreamRNG(None, thresholds=th, observe=observe)

    def make(self, budget, rng):
        return self.factory(budget, rng)

    # chunk: tuple of symbols; utilities / candidates derived from the alphabet
    def values(self, chunk, util_values=UTIL_VALUES):
        if self.kind == "manager":
            return np.array([util_values[s] for s in chunk], dtype=float)
        return np.array([CAND_POINTS[s] for s in chunk], dtype=float)

    def query(self, obj, chunk, util_values=UTIL_VALUES):
        v = self.values(chunk, util_values)
        with warnings.catch_warnings():
            warnings.simplefilter("ignore")
            if self.kind == "manager":
                idx = obj.query_by_utility(v.copy())
                return idx, v
            if self.name in BASELINES:
                idx, ut = obj.query(v.copy(), return_utilities=True)
            else:
                idx, ut = obj.query(v.copy(), clf=clf(), return_utilities=True, **{k: np.array(x) for k, x in self.query_extra.items()})
            return idx, ut

    def update(self, obj, chunk, idx, utilities, util_values=UTIL_VALUES, as_list=False):
        v = self.values(chunk, util_values)
        cands = v.reshape(-1, 1) if self.kind == "manager" else v
        with warnings.catch_warnings():
            warnings.simplefilter("ignore")
            if self.kind == "manager":
                if self.update_utilities:
                    obj.update(cands, idx, utilities)
                else:
                    obj.update(cands, idx)
            elif self.name in BASELINES:
                obj.update(cands, idx)
            else:
                obj.update(cands, idx, budget_manager_param_dict={"utilities": utilities})


BASELINES = {"StreamRandomSampling", "StreamRandomSampling[no_exceed]", "PeriodicSampling"}


def _bm(name, **kw):
    import skactiveml.stream.budgetmanager as B

    cls = getattr(B, name)

    def f(budget, rng):
        k = dict(kw)
        import inspect

        if "random_state" in inspect.signature(cls.__init__).parameters:
            k["random_state"] = rng
        return cls(budget=budget, **k)

    return f


def _qs(name, bm=None, bm_kw=None, **kw):
    import skactiveml.stream as S
    import skactiveml.stream.budgetmanager as B

    def f(budget, rng):
        k = dict(kw)
        cls = getattr(S, name)
        if bm is not None:
            import inspect

            bcls = getattr(B, bm)
            bk = dict(bm_kw or {})
            if "random_state" in inspect.signature(bcls.__init__).parameters:
                bk["random_state"] = rng
            k["budget_manager"] = bcls(budget=budget, **bk)
        return cls(budget=budget, random_state=rng, **k)

    return f


W = 4  # window of the Zliobaite-style managers in the exploration (small so that the estimate saturates within the horizon)

MANAGERS = [
    StreamSubject("FixedUncertaintyBudgetManager", "manager", _bm("FixedUncertaintyBudgetManager", classes=[0, 1], w=W), bound="window", w=W,
                  chunk_invariant=True),
    StreamSubject("VariableUncertaintyBudgetManager", "manager", _bm("VariableUncertaintyBudgetManager", w=W, s=0.5), bound="window", w=W,
                  chunk_invariant=True),
    StreamSubject("RandomVariableUncertaintyBudgetManager", "manager", _bm("RandomVariableUncertaintyBudgetManager", w=W, s=0.5, delta=1.0),
                  bound="window", w=W, uses_normal=True, random=True),
    StreamSubject("SplitBudgetManager", "manager", _bm("SplitBudgetManager", w=W, s=0.5, v=0.3), bound="window", w=W, random=True,
                  thresholds=lambda b: (0.3, b), chunk_invariant=True),
    StreamSubject("RandomBudgetManager", "manager", _bm("RandomBudgetManager", w=W), bound="window", w=W, random=True,
                  thresholds=lambda b: (b,), chunk_invariant=True),
    StreamSubject("DensityBasedSplitBudgetManager", "manager", _bm("DensityBasedSplitBudgetManager", s=0.5, delta=1.0), bound="density",
                  uses_normal=True, random=True),
    StreamSubject("BalancedIncrementalQuantileFilter", "manager", _bm("BalancedIncrementalQuantileFilter", w=W, w_tol=2), bound=None,
                  update_utilities=True, chunk_invariant=True),
    StreamSubject("EstimatedBudgetZliobaite", "manager", None, bound=None, quick=False),  # abstract base (no query_by_utility)
]

STRATEGIES = [
    StreamSubject("StreamRandomSampling", "strategy", _qs("StreamRandomSampling", allow_exceeding_budget=True), bound=None, random=True,
                  thresholds=lambda b: (1 - b,), chunk_invariant=True, exact_counters=True),
    StreamSubject("StreamRandomSampling[no_exceed]", "strategy", _qs("StreamRandomSampling", allow_exceeding_budget=False), bound="exact",
                  random=True, thresholds=lambda b: (1 - b,), chunk_invariant=True, exact_counters=True),
    StreamSubject("PeriodicSampling", "strategy", _qs("PeriodicSampling"), bound="exact", chunk_invariant=True, exact_counters=True),
    StreamSubject("FixedUncertainty", "strategy", _qs("FixedUncertainty", bm="FixedUncertaintyBudgetManager", bm_kw={"classes": [0, 1], "w": W},
                                                      classes=[0, 1]), bound="window", w=W, chunk_invariant=True),
    StreamSubject("VariableUncertainty", "strategy", _qs("VariableUncertainty", bm="VariableUncertaintyBudgetManager", bm_kw={"w": W, "s": 0.5}),
                  bound="window", w=W, chunk_invariant=True),
    StreamSubject("RandomVariableUncertainty", "strategy",
                  _qs("RandomVariableUncertainty", bm="RandomVariableUncertaintyBudgetManager", bm_kw={"w": W, "s": 0.5}), bound="window", w=W,
                  uses_normal=True, random=True),
    StreamSubject("Split", "strategy", _qs("Split", bm="SplitBudgetManager", bm_kw={"w": W, "s": 0.5, "v": 0.3}), bound="window", w=W, random=True,
                  thresholds=lambda b: (0.3, b), chunk_invariant=True),
    StreamSubject("StreamProbabilisticAL", "strategy", _qs("StreamProbabilisticAL", bm="BalancedIncrementalQuantileFilter", bm_kw={"w": W, "w_tol": 2}),
                  update_utilities=True),
    StreamSubject("StreamProbabilisticAL[rbf]", "strategy",
                  _qs("StreamProbabilisticAL", bm="BalancedIncrementalQuantileFilter", bm_kw={"w": W, "w_tol": 2}, metric="rbf"),
                  update_utilities=True, query_extra={"X": [[0.0], [4.0]], "y": [0, 1]}),
    StreamSubject("StreamDensityBasedAL", "strategy", _qs("StreamDensityBasedAL", bm="DensityBasedSplitBudgetManager", bm_kw={"s": 0.5},
                                                          window_size=3), uses_normal=True, random=True),
    StreamSubject("CognitiveDualQueryStrategy", "strategy",
                  _qs("CognitiveDualQueryStrategy", bm="FixedUncertaintyBudgetManager", bm_kw={"classes": [0, 1], "w": W}, cognition_window_size=2)),
    StreamSubject("CognitiveDualQueryStrategy[force_full_budget]", "strategy",
                  _qs("CognitiveDualQueryStrategy", bm="FixedUncertaintyBudgetManager", bm_kw={"classes": [0, 1], "w": W}, cognition_window_size=2,
                      force_full_budget=True)),
    StreamSubject("CognitiveDualQueryStrategyRan", "strategy", _qs("CognitiveDualQueryStrategyRan", cognition_window_size=2), random=True),
    StreamSubject("CognitiveDualQueryStrategyFixUn", "strategy", _qs("CognitiveDualQueryStrategyFixUn", classes=[0, 1], cognition_window_size=2)),
    StreamSubject("CognitiveDualQueryStrategyVarUn", "strategy", _qs("CognitiveDualQueryStrategyVarUn", cognition_window_size=2)),
    StreamSubject("CognitiveDualQueryStrategyRanVarUn", "strategy", _qs("CognitiveDualQueryStrategyRanVarUn", cognition_window_size=2),
                  uses_normal=True, random=True),
    StreamSubject("CognitiveDualQueryStrategyVarUn[force_full_budget]", "strategy",
                  _qs("CognitiveDualQueryStrategyVarUn", cognition_window_size=2, force_full_budget=True)),
]
ALL = [s for s in MANAGERS if s.factory is not None] + STRATEGIES
BY_NAME = {s.name: s for s in ALL}


def check_complete():
    import skactiveml.stream as S
    import skactiveml.stream.budgetmanager as B

    have = set()
    for s in MANAGERS + STRATEGIES:
        have.add(s.name.split("[")[0])
    missing = [n for n in S.__all__ if n != "budgetmanager" and n not in have]
    missing += [n for n in B.__all__ if n not in have]
    return missing
