#!/bin/bash
# Entry point of the /verif machinery.
#   ./run.sh check <Cxx> [quick|thorough]
#   ./run.sh replay <path-to-replay.json>
#   ./run.sh setup
# Every check imports /repo's *current working tree* (nothing is installed,
# nothing is built) and explores it under a deterministic environment.
set -u
HERE="$(cd "$(dirname "${BASH_SOURCE[0]}")" && pwd)"
REPO="${VERIF_REPO:-/repo}"
PY="${VERIF_PY:-/venv/bin/python}"
export PYTHONPATH="$REPO:$HERE${PYTHONPATH:+:$PYTHONPATH}"
export PYTHONHASHSEED=0
export OMP_NUM_THREADS=1 OPENBLAS_NUM_THREADS=1 MKL_NUM_THREADS=1 NUMEXPR_NUM_THREADS=1
export PYTHONDONTWRITEBYTECODE=1
export PYTHONWARNINGS=ignore
export SKACTIVEML_VERIF=1
export VERIF_HOME="$HERE"
export VERIF_REPO="$REPO"
cd "$HERE"
exec "$PY" -m mc.runner "$@"
