#!/bin/bash
# usage: tools/confirm2.sh <seed id e.g. C03b> <check ids...>; serial repository suite + demo + checks against a patched scratch worktree
ID="$1"; shift; CHECKS="$@"; OUT=${SEEDDIR:-/tmp/seed}/${ID}_out
WT=/tmp/cf_$ID
git -C /repo worktree remove --force $WT 2>/dev/null
git -C /repo worktree add -q --detach $WT HEAD || exit 2
echo "== demo on clean tree"; SKACTIVEML_PATH=$WT PYTHONPATH=$WT OMP_NUM_THREADS=1 timeout 600 /venv/bin/python $OUT/demo.py > /tmp/cf_$ID.clean.out 2>&1; echo "exit=$?"
git -C $WT apply $OUT/patch.diff || { echo PATCH-DOES-NOT-APPLY; exit 2; }
git -C $WT diff --stat | tail -1
echo "== demo on patched tree"; SKACTIVEML_PATH=$WT PYTHONPATH=$WT OMP_NUM_THREADS=1 timeout 600 /venv/bin/python $OUT/demo.py > /tmp/cf_$ID.patched.out 2>&1; echo "exit=$?"; tail -2 /tmp/cf_$ID.patched.out | cut -c1-200
(/verif/tools/serial_suite.sh $WT $ID > /tmp/probe/ss_$ID.txt 2>&1 &)
for c in $CHECKS; do echo "== check $c quick on patched tree"; (cd /verif && VERIF_NPROC=${NP:-10} VERIF_REPO=$WT ./run.sh check $c quick 2>&1 | grep -v "^KNOWN" | cut -c1-260 | head -7); done
while pgrep -f "junit_$ID.xml" > /dev/null; do sleep 10; done
echo "== serial repository suite on patched tree: $(grep -E 'passed|failed' /tmp/probe/ss_$ID.txt | tail -1)"; grep -E '^(FAILED|ERROR)' /tmp/probe/ss_$ID.txt | grep -v 'test_conditional_expectation\|TestWrapper::test_fit_predict'
git -C /repo worktree remove --force $WT
