#!/usr/bin/env python3
"""Regenerates MANIFEST.json from the per-check metadata below."""
import json
import os

HOME = os.path.dirname(os.path.dirname(os.path.abspath(__file__)))

# id -> (technique, level text, level note, design ref)
CHECKS = {}


def reg(pid, technique, text, note, ref):
    CHECKS[pid] = (technique, text, note, ref)


reg(
    "C18",
    "bounded exhaustive enumeration of all small utility arrays x all generator orderings (choice tape), real primitives executed; real-seed conformance replayed through the tape model",
    "Every array up to the length bound over an alphabet with NaN, ties, negatives and infinities is executed on the real "
    "rand_argmax / rand_argmin / simple_batch under every ordering of the random vector (generator owned by the explorer); "
    "optimality, tie fairness (union of outcomes = tie set), reproducibility, distinctness, masking and zero-weight laws are "
    "judged on every execution.",
    "Value alphabets and array sizes are bounded (DESIGN 8); numpy's RandomState is trusted; orderings of vectors longer than 4 "
    "are reduced to rotations/reflections.",
    "DESIGN.md 5/C18",
)

POOL_NOTE = ("Bounded: pools of 4 (quick) / 5 (thorough) points with two classes, batch sizes <= 3/4, deviation bound 1/2 on the tie / "
             "choice tapes; draws other than arg-max tie-breaks and choice(replace=False) come from the seeded generator; wrapped "
             "scikit-learn estimators are trusted. Known genuine defects are listed in known_findings.json.")
reg(
    "C01",
    "bounded exhaustive enumeration (all labelings x candidate modes x batch sizes of small pools) with stateless DFS over tie/choice tapes (iterated deviation bound), real query() executed and judged against a reference model of the candidate set",
    "Every strategy variant of skactiveml.pool is executed on every labeling of small pools (incl. duplicated points, cold start, single "
    "candidate), every candidate mode and batch size, and every resolution of every random tie / without-replacement draw up to the "
    "deviation bound; each execution is judged for shape, length, distinctness and membership in the reference candidate set; real-seed "
    "runs are observed and replayed through the tape model (conformance).",
    POOL_NOTE,
    "DESIGN.md 5/C01",
)
reg(
    "C02",
    "same exploration as C01 (bounded exhaustive inputs x tie/choice tapes); oracle on the returned utilities: NaN layout per step, arg-max / positive-mass relation",
    "On every execution of the C01 grid the utility rows are checked: shape, NaN exactly at non-candidates and earlier picks, pick attains "
    "the row maximum (maximising strategies) or has positive mass (sampling strategies), under every tie pattern resolution.",
    POOL_NOTE,
    "DESIGN.md 5/C02",
)

reg(
    "C16",
    "bounded exhaustive enumeration of all label arrays (1-D length <= 3/4, 2-D up to 2x2) over every (dtype, sentinel) encoding; encoder explored as a 3-step machine; reference model compared on every case",
    "Every small label array over every supported label type / sentinel combination (ndarray and list containers) is run through "
    "is_labeled, is_unlabeled, labeled_indices, unlabeled_indices and through ExtLabelEncoder fit -> transform (also of other "
    "arrays) -> inverse_transform, and compared with a boring reference (is_missing, sorted classes).",
    "Array sizes and alphabets are bounded; numpy / sklearn.LabelEncoder trusted.",
    "DESIGN.md 5/C16",
)
reg(
    "C17",
    "bounded exhaustive enumeration of all label / weight matrices up to 3x2 over {missing, 3 classes} x encodings x normalize modes; tie tapes for majority_vote; nested-loop counting reference compared on every case",
    "compute_vote_vectors, majority_vote (every resolution of every tie) and ext_confusion_matrix are executed on every small "
    "label matrix / weight matrix / normalisation mode and compared with plain counting.",
    "Matrix sizes, class count (3) and weight alphabet are bounded; 0/0 entries of normalised confusion matrices are only required to be finite.",
    "DESIGN.md 5/C17",
)

STREAM_NOTE = ("Bounded: utility alphabet {0(.05), 0.5, 1(.95), NaN} / 4 candidate points against a fixed tiny classifier, chunk sizes and "
               "horizons as in the evidence; uniform draws explored by comparison region and normal draws by z in {-2,0,2} through a "
               "lazily decided generator-stream model (StreamRNG), real seeds as conformance; nested default managers of the "
               "Cognitive*Ran/VarUn/FixUn strategies keep a real seeded generator.")
reg(
    "C04",
    "explicit-state BFS over the real budget managers (transition = query+update of a chunk on a deep copy; states merged on full fingerprint + counters), every random comparison outcome enumerated by tape; invariant + reference recurrence checked at every prefix",
    "All utility streams over {0,0.5,1,NaN} and all chunkings up to the horizon are explored as a state graph of the real manager "
    "objects for several budgets and windows; at every prefix the number of granted labels is compared with the bound of the "
    "statement, every grant with the reference estimate of the spent budget, and the object's own estimate with the reference recurrence.",
    STREAM_NOTE,
    "DESIGN.md 5/C04",
)
reg(
    "C10",
    "explicit-state BFS over all chunked query/update histories of every stream strategy and budget manager; differential oracle: each multi-instance transition vs one-at-a-time processing from the same pre-state under the same generator stream",
    "From every reachable state every chunk (size <= 2/3) is executed: update must accept query's result, indices must be strictly "
    "increasing and in range, and for the chunk-invariant managers/strategies decisions and resulting state must equal one-at-a-time "
    "processing - which, by induction over the first deviating chunk, covers every chunking of every stream up to the horizon.",
    STREAM_NOTE,
    "DESIGN.md 5/C10",
)

reg(
    "C03",
    "explicit-state BFS over the real stream strategies / budget managers; in every reachable state every query of the alphabet is judged by a purity oracle (repeat equality, per-attribute fingerprints incl. generator state/position, behavioural continuation equivalence, get_params)",
    "Every state reachable by chunked query/update histories up to the horizon is materialised as a real object; in each state "
    "every query is executed twice and compared, every pre-existing attribute (nested manager, windows, thresholds, generator) is "
    "fingerprinted before/after, and all continuations of depth <= 2 are compared between the pristine object and one on which "
    "all queries were called, under a model generator (stream position) and under real seeded generators.",
    STREAM_NOTE,
    "DESIGN.md 5/C03",
)

reg(
    "C11",
    "bounded exhaustive enumeration of all labelings of small training sets x class declarations x cost matrices x weights for every classifier; predict executed under every resolution of its cost ties (tape); reference expected-cost model",
    "Every classifier variant is fitted on every labeling over {missing,0,1,2} of 4-point pools (3x2 for multi-annotator models), with "
    "classes undeclared / sorted / unsorted / re-encoded, cost matrices None / 0-1 / asymmetric, weights and partial_fit histories; "
    "predict_proba is checked for shape, finiteness, simplex and column order, predict_freq for sign, predict (all tie tapes) for "
    "membership and minimal reference expected cost, and the uniform fall-back without labels.",
    "Training sets of 4 points / 3 classes; wrapped scikit-learn estimators are trusted (without a cost matrix the wrapper only has to "
    "hand through the estimator's own decision); row sums to 1e-9 (1e-6 for wrapped estimators).",
    "DESIGN.md 5/C11",
)

reg(
    "C12",
    "bounded exhaustive enumeration of paired fits: every labeling of small pools and every insertion of 1-2 unlabeled rows (position x value x weight) for every supervised learner; differential oracle full data vs labeled subset",
    "For every purely supervised learner the model fitted on (X, y, w) is compared with the model fitted on the labeled subset, for all "
    "labelings over {missing, 3 classes/targets} of 4-point pools, all weight patterns of the unlabeled rows over {0.5,3} and all "
    "single (thorough: double) insertions of foreign unlabeled rows at every position.",
    "Pools of 4 points; comparisons bit-wise for scikit-learn wrappers, rtol 1e-9 for kernel sums; wrapped estimators trusted.",
    "DESIGN.md 5/C12",
)
reg(
    "C15",
    "bounded exhaustive enumeration of all target vectors over {missing,0,1,3}^4 x weight patterns x prior settings for every regressor; oracle = agreement of predict with the returned distribution, finiteness under proper priors, sample_y laws, documented fall-backs",
    "Every regressor variant (incl. improper priors and wrapped estimators that cannot be fitted) is fitted on every target vector and "
    "judged at an interior, a training and a far query point.",
    "One 1-D pool of 4 points; scipy.stats distributions and wrapped estimators trusted.",
    "DESIGN.md 5/C15",
)

reg(
    "C13",
    "explicit-state BFS over operation histories (fit / partial_fit / predict over 4 data sets, depth 3-4) on one real estimator object, differential oracle against a fresh object driven through the documented suffix; BFS over query/update histories for stream subjects (get_params invariance)",
    "Every history up to the depth bound is executed on deep copies of real estimator objects (incl. symbolic defaults such as "
    "gamma='mean' and metric_dict=None and caller-owned dict parameters); after every transition get_params(deep=True) and the caller's "
    "dicts are fingerprinted, predictions are compared with a fresh object replaying only the documented history, and the "
    "sliding-window classifier with a reference list model; stream strategies and budget managers are checked for parameter "
    "invariance under every query/update transition.",
    "4 data sets, depth 3 (quick) / 4 (thorough); the static AST scan of parameter writes is steering evidence only.",
    "DESIGN.md 5/C13",
)

reg(
    "C05",
    "bounded exhaustive enumeration of query histories (1-3 consecutive queries on different data, all labelings of small pools x candidate modes x batch sizes, fit and pre-fit modes) on one real strategy + model object; state fingerprints of inputs, caller model, get_params, pickle, clone-vs-fresh differential",
    "Every pool strategy variant (incl. configurations that reach lazily resolved None defaults) is driven through histories of "
    "queries; after every query the input arrays are compared byte-wise, the caller's model object(s) and get_params(deep=True) by "
    "full-state fingerprint, the strategy is pickled, and after every history a clone is compared with a fresh strategy.",
    POOL_NOTE + " Estimator-valued parameters are compared by type and own parameters (their fitted state is not a parameter).",
    "DESIGN.md 5/C05",
)

reg(
    "C08",
    "bounded exhaustive enumeration of relation instances (None vs indices vs feature rows; every proper candidate subset; every row permutation) over all labelings of small pools, paired executions of the real query under the same tape",
    "For every strategy, pool and labeling the three ways of addressing the unlabeled candidates are executed and compared; for the "
    "strategies that score samples independently every proper candidate subset and all 24 row permutations are compared with the "
    "reference utilities (equivariance only where a two-seed comparison shows the utilities are deterministic).",
    POOL_NOTE + " The list of sample-wise strategies is the catalogue's reading of the code.",
    "DESIGN.md 5/C08",
)

reg(
    "C09",
    "bounded exhaustive enumeration of paired executions: every labeling of small pools x candidate modes x batch sizes for every pool strategy / classifier / label-aware stream strategy, each of 7 re-encodings compared with the float/NaN baseline under the same tape",
    "Every subject is executed under 8 (dtype, class renaming, sentinel) encodings with missing_label and classes configured "
    "consistently on the strategy and its models; indices, utilities and predict_proba must be identical to the baseline and predictions "
    "must be the re-encoded baseline predictions.",
    POOL_NOTE + " An encoding counts as rejected (trivial) only if the label predicates themselves reject the (sentinel, dtype) pair.",
    "DESIGN.md 5/C09",
)

reg(
    "C14",
    "explicit-state exploration of the pool AL loop: state = (labeling, real strategy object carried across cycles), transition = real query on a deep copy under a tie/choice tape + every oracle answer, all labelings as initial states, merged on (labeling, strategy fingerprint)",
    "The whole reachable state graph of the query/reveal loop is explored for every strategy variant, pool and batch size; the "
    "per-transition invariant (exactly min(batch_size, u) distinct, still unlabeled samples) holds in every reachable state, which "
    "implies that no sample is queried twice and that exhaustion takes exactly ceil(u/batch_size) queries on every run (also "
    "measured on every explored path); strategy-side caches are exercised across cycles because the strategy object is part of the state.",
    POOL_NOTE,
    "DESIGN.md 5/C14",
)

reg(
    "C07",
    "bounded exhaustive enumeration of label matrices x the five candidates/annotators specification modes (all index subsets, all boolean availability matrices, feature rows) x batch sizes x annotators-per-sample, tie tapes; reference model of available pairs; lasso detection (sys.settrace) on the annotator-assignment loop",
    "Every multi-annotator query of the 3x2 grid is executed on the real SingleAnnotatorWrapper / IntervalEstimationThreshold and "
    "judged against the docstring semantics of available pairs (shape, distinctness, availability, count, NaN layout, annotators per "
    "sample); termination is decided by detecting a repeated state of the deterministic assignment loop plus a time horizon.",
    "3 samples x 2 annotators; IntervalEstimationThreshold is judged only inside its documented domain (all or no annotators "
    "available per candidate sample); A_perf given (ties by tape) or seeded.",
    "DESIGN.md 5/C07",
)
reg(
    "C20",
    "bounded exhaustive paired executions wrapped vs unwrapped: all labelings x candidate modes x n_jobs for the parallel wrapper; every drawable sub-sample (choice tape) x max_candidates x exclude flag for the sub-sampling wrapper with an independent reference call of the inner strategy; sample-order comparison for the single-annotator wrapper",
    "The wrapper and the wrapped strategy are executed side by side under the same tape for every case of the grid; for the "
    "sub-sampling wrapper the choice tape enumerates every subset it can draw, and size, index space, -inf/NaN layout and the inner "
    "utilities on that subset are checked; all subsets of the documented size must be reachable.",
    POOL_NOTE + " joblib threading backend.",
    "DESIGN.md 5/C20",
)

reg(
    "C19",
    "explicit-state BFS over operation histories of the real IndexClassifierWrapper (states rebuilt by replay, merged on the bookkeeping fingerprint) for all flag combinations; reference multiset / chunk-sequence model with an independently retrained fresh classifier compared in every state; speed-up on/off differential",
    "All histories up to the depth bound over fit / partial_fit with index sets, label overrides and base-model flags are executed; in "
    "every reachable state the wrapper's predictions are compared with a fresh clone trained on the implied multiset of "
    "(sample, label, weight) triples, NotFittedError behaviour with the model, and use_speed_up with its absence.",
    "4 samples, index-set menu of size <= 2, depth 2 (quick) / 3 (thorough); ParzenWindowClassifier and SklearnClassifier(GaussianNB) as wrapped classifiers.",
    "DESIGN.md 5/C19",
)

reg(
    "C06",
    "bounded exhaustive enumeration of schedules: for every subject, seed and input of a small grid all assignments of three global-generator states to the call boundaries of a 2-3 call history are executed on the real code (real rand_argmax / RandomState) and compared, plus twin-object and repeated-call comparisons",
    "Interleavings of 'other code draws from np.random' with the library calls are modelled by re-seeding numpy's global generator "
    "to one of three poison states at every call boundary; all 9 assignments (2 calls) are enumerated for every pool strategy "
    "(incl. default clustering configurations), stream strategy, budget manager, classifier and regressor; results must be identical "
    "across schedules, across twin objects and across repeated pool calls.",
    "Three poison states, seeds {0,1,RandomState}, pools of 4 points; consumption of the global generator is recorded as steering evidence only.",
    "DESIGN.md 5/C06",
)


def main():
    props = [json.loads(l) for l in open(os.path.join(HOME, "properties.jsonl"))]
    ids = [p["id"] for p in props]
    na_path = os.path.join(HOME, "tools", "not_applicable.json")
    na_reasons = json.load(open(na_path)) if os.path.exists(na_path) else {}
    checks = []
    for pid in ids:
        if pid not in CHECKS:
            continue
        tech, text, note, ref = CHECKS[pid]
        checks.append(
            {
                "property_id": pid,
                "quick_cmd": "./run.sh check %s quick" % pid,
                "thorough_cmd": "./run.sh check %s thorough" % pid,
                "evidence_file": "/verif/evidence/%s.json" % pid,
                "replay_cmd_template": "./run.sh replay {path}",
                "engine": "mc",
                "level_claimed": {"category": "model_checking", "text": text, "design_ref": ref},
                "level_note": note,
                "technique": tech,
            }
        )
    man = {
        "version": 1,
        "setup_cmd": "./run.sh setup",
        "hooks": {
            "guard": "SKACTIVEML_VERIF",
            "enable": "SKACTIVEML_VERIF=1 is exported by run.sh; no in-tree hooks exist - all instrumentation is installed at run "
            "time by rebinding module attributes (rand_argmax, rand_argmin, check_random_state, np.random.mtrand._rand) and sys.settrace",
            "baseline_off_cmd": "cd /repo && /venv/bin/python -m pytest -ra -q -p no:cacheprovider --timeout=900 --continue-on-collection-errors",
            "source_commits": [],
            "add_only": True,
        },
        "engines": [
            {
                "name": "mc",
                "path": "/verif/mc",
                "serves_properties": [c["property_id"] for c in checks],
                "kind_free_text": "hand-written explicit-state / bounded-exhaustive explorer executing the real skactiveml code: "
                "small-scope input enumeration, choice tapes with iterated deviation bound for all randomness, BFS over "
                "operation histories with full-state fingerprints, reference models compared on every trace",
            }
        ],
        "checks": checks,
        "notes": "Every check imports /repo's working tree directly (PYTHONPATH), nothing is built or installed. "
        "Known genuine defects are listed in /verif/known_findings.json and printed as KNOWN-FINDING lines.",
        "not_applicable": [
            {"property_id": pid, "reason": na_reasons.get(pid, "check not built yet in this round; it is applicable and planned (DESIGN.md section 5)")}
            for pid in ids
            if pid not in CHECKS
        ],
    }
    with open(os.path.join(HOME, "MANIFEST.json"), "w") as f:
        json.dump(man, f, indent=1)
    print("MANIFEST.json: %d checks, %d not_applicable" % (len(checks), len(man["not_applicable"])))


if __name__ == "__main__":
    main()
