#!/usr/bin/env python3
"""Hand-made property-breaking changes (the M entries of DESIGN.md section 5).

usage: tools/mutations.py [name ...]     (default: all)
Each mutation is applied to a scratch worktree of /repo (never to /repo
itself), the listed quick check is run against it with VERIF_REPO, and the
outcome (VIOLATION lines / exit code) is printed; the worktree is reset
afterwards. Results are summarised in MUTATIONS.md.
"""
import os
import subprocess
import sys

WT = "/tmp/wt_mut"
HOME = os.path.dirname(os.path.dirname(os.path.abspath(__file__)))

# name -> (property, file, old, new, note)
M = {
    "c18-choice-replace": ("C18", "skactiveml/utils/_selection.py", "replace=False,", "replace=True,", "proportional batch may repeat a pick"),
    "c18-argmin-mask": ("C18", "skactiveml/utils/_selection.py", "* (a == np.nanmin(a, **argmin_kwargs, keepdims=True))",
                        "* (a == np.nanmax(-a, **argmin_kwargs, keepdims=True))", "rand_argmin mask built from the wrong extremum"),
    "c01-greedy-keep": ("C01", "skactiveml/pool/_greedy_sampling.py", "        not_selected_candidates = np.delete(not_selected_candidates, idx)\n", "        pass\n",
                        "GreedySampling keeps the chosen entry among the selectable ones"),
    "c02-snapshot-after-mask": ("C02", "skactiveml/utils/_selection.py",
                                "            batch_utilities[i] = utilities\n            utilities[tuple(best_indices[i])] = np.nan",
                                "            utilities[tuple(best_indices[i])] = np.nan\n            batch_utilities[i] = utilities",
                                "simple_batch takes the row snapshot after masking the winner"),
    "c03-theta-alias": ("C03", "skactiveml/stream/_density_uncertainty.py", "        tmp_theta = copy(self.theta_)\n        tmp_s = copy(self.s_)",
                        "        tmp_theta = self.theta_\n        tmp_s = copy(self.s_)", "CognitiveDualQueryStrategy.query aliases theta_ instead of copying"),
    "c04-periodic-guard": ("C04", "skactiveml/stream/_stream_baselines.py", "            queried[i] = remaining_budget >= 1", "            queried[i] = remaining_budget > 0",
                           "PeriodicSampling grants while any budget credit is left"),
    "c05-fit-callers-clf": ("C05", "skactiveml/pool/_uncertainty_sampling.py", "clf = clone(clf).fit(X, y, sample_weight)", "clf = clf.fit(X, y, sample_weight)",
                            "UncertaintySampling fits the caller's classifier (weighted path)"),
    "c06-random-none": ("C06", "skactiveml/pool/_random_sampling.py", "            self.random_state_,\n", "            None,\n", "RandomSampling draws from the global generator"),
    "c07-no-pair-mask": ("C07", "skactiveml/pool/multiannotator/_wrapper.py",
                         "            s_utilities[\n                :, query_indices[batch_index, 0], query_indices[batch_index, 1]\n            ] = np.nan\n", "",
                         "selected pair is not masked for later steps"),
    "c08-scatter-reversed": ("C08", "skactiveml/pool/_contrastive_al.py", "utilities[mapping] = utilities_cand", "utilities[mapping[::-1]] = utilities_cand",
                             "ContrastiveAL scatters candidate utilities in reversed order"),
    "c09-coreset-sentinel": ("C09", "skactiveml/pool/_core_set.py", "    selected_samples = labeled_indices(y, missing_label=missing_label)",
                             "    selected_samples = labeled_indices(y)", "CoreSet ignores missing_label"),
    "c10-biqf-reversed": ("C10", "skactiveml/stream/budgetmanager/_balanced_incremental_quantile_filter.py", "        self.history_sorted_.extend(utilities)",
                          "        self.history_sorted_.extend(utilities[::-1])", "BIQF commits the chunk's utilities in reversed order"),
    "c11-cost-perm": ("C11", "skactiveml/base.py",
                      "        if self.classes is not None:\n            class_indices = np.argsort(self.classes)\n            self.cost_matrix_ = self.cost_matrix_[class_indices]\n"
                      "            self.cost_matrix_ = self.cost_matrix_[:, class_indices]\n", "", "cost matrix not permuted to sorted class order"),
    "c12-nic-weights": ("C12", "skactiveml/regressor/_nic_kernel_regressor.py", "            self.weights_ = sample_weight[is_lbld]",
                        "            self.weights_ = sample_weight[: int(np.sum(is_lbld))]", "NIC regressor keeps the weights of the first rows instead of the labeled rows"),
    "c13-reuse-estimator": ("C13", "skactiveml/classifier/_wrapper.py",
                            "        if hasattr(self, \"estimator_\"):\n            if fit_function != \"partial_fit\":\n                self.estimator_ = deepcopy(self.estimator)\n"
                            "        else:\n            self.estimator_ = deepcopy(self.estimator)\n        # count labels per class",
                            "        if not hasattr(self, \"estimator_\"):\n            self.estimator_ = deepcopy(self.estimator)\n        # count labels per class",
                            "SklearnClassifier.fit reuses the fitted estimator_"),
    "c14-stale-candidates": ("C14", "skactiveml/pool/_prob_cover.py", "        # Compute edges of the graph with the samples as vertices.\n",
                             "        if not hasattr(self, \"is_candidate_\") or len(self.is_candidate_) != len(X):\n            self.is_candidate_ = is_candidate.copy()\n"
                             "        is_candidate = self.is_candidate_.copy() if update is False and is_candidate.sum() <= 1 else is_candidate\n"
                             "        # Compute edges of the graph with the samples as vertices.\n", "ProbCover reuses a candidate mask cached in the first cycle"),
    "c15-label-mean": ("C15", "skactiveml/regressor/_wrapper.py", "        self._label_mean = np.mean(y[is_lbld]) if np.sum(is_lbld) > 0 else 0",
                       "        self._label_mean = np.nanmean(np.nan_to_num(y)) if np.sum(is_lbld) > 0 else 0", "fallback mean over all (incl. missing) targets"),
    "c16-encoder-missing": ("C16", "skactiveml/utils/_label_encoder.py", "        y_enc[~is_lbld] = -1", "        y_enc[~is_lbld] = 0", "missing labels encoded as class 0"),
    "c17-weights-order": ("C17", "skactiveml/utils/_aggregation.py",
                          "    w[is_unlabeled_y] = 1\n\n    # count class labels per class and weight by confidence scores\n    w[np.logical_or(np.isnan(w), is_unlabeled_y)] = 0",
                          "    # count class labels per class and weight by confidence scores\n    w[np.logical_or(np.isnan(w), is_unlabeled_y)] = 0\n    w[is_unlabeled_y] = 1",
                          "missing labels vote for class 0"),
    "c19-base-weights": ("C19", "skactiveml/pool/utils.py",
                         "                self.sample_weight_ = self._copy_sw(self.base_sample_weight_)\n\n            if self.enforce_unique_samples:",
                         "\n            if self.enforce_unique_samples:", "partial_fit(use_base_clf=True) does not restore the base weights"),
    "c20-no-neginf": ("C20", "skactiveml/pool/_wrapper.py",
                      "                new_utilities[:, candidate_indices] = -np.inf\n                new_utilities[:, new_candidates] = utilities[:, new_candidates]",
                      "                new_utilities[:, new_candidates] = utilities[:, new_candidates]", "SubSamplingWrapper omits the -inf fill"),
}


def sh(cmd, **kw):
    return subprocess.run(cmd, shell=True, capture_output=True, text=True, **kw)


def main(names):
    if not os.path.isdir(WT):
        r = sh("git -C /repo worktree add -q --detach %s HEAD" % WT)
        if r.returncode:
            print(r.stderr)
            return 2
    sh("git -C %s checkout -q --detach main && git -C %s checkout -q -- ." % (WT, WT))
    rows = []
    for n in names or list(M):
        prop, f, old, new, note = M[n]
        p = os.path.join(WT, f)
        s = open(p).read()
        if s.count(old) < 1:
            rows.append((n, prop, "PATCH-DOES-NOT-APPLY", ""))
            continue
        open(p, "w").write(s.replace(old, new, 1))
        r = sh("cd %s && VERIF_REPO=%s ./run.sh check %s quick" % (HOME, WT, prop))
        viol = [l for l in r.stdout.splitlines() if l.startswith("VIOLATION")]
        first = [l.strip() for l in r.stdout.splitlines() if l.startswith("  subject=")][:1]
        rows.append((n, prop, "caught (%d VIOLATION lines, exit %d)" % (len(viol), r.returncode) if viol and r.returncode == 1 else "MISSED (exit %d)" % r.returncode,
                     (first[0][:160] if first else "")))
        sh("git -C %s checkout -q -- ." % WT)
        print("%-26s %-4s %s\n      %s" % rows[-1], flush=True)
    sh("git -C /repo worktree remove --force %s" % WT)
    return 0 if all(r[2].startswith("caught") for r in rows) else 1


if __name__ == "__main__":
    sys.exit(main(sys.argv[1:]))
