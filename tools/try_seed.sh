#!/bin/bash
# usage: tools/try_seed.sh <patch.diff> <check ids...>  -> runs the quick checks against a scratch worktree with the patch applied
P="$1"; shift
WT=/tmp/try_$$
git -C /repo worktree add -q --detach $WT HEAD || exit 2
git -C $WT apply "$P" || { echo PATCH-DOES-NOT-APPLY; git -C /repo worktree remove --force $WT; exit 2; }
for c in "$@"; do (cd /verif && VERIF_NPROC=${NP:-10} VERIF_REPO=$WT ./run.sh check $c quick 2>&1 | grep -v "^KNOWN" | cut -c1-300 | tail -${TAIL:-4}); done
git -C /repo worktree remove --force $WT
