#!/bin/bash
# usage: tools/repo_tests.sh [repo_dir]  -> prints failing test ids (sorted) and a summary line
R="${1:-/repo}"
cd "$R" && /venv/bin/python -m pytest -q -p no:cacheprovider --timeout=900 --continue-on-collection-errors -n 14 -rf 2>&1 | grep -E "^(FAILED|ERROR|[0-9]+ (passed|failed))|passed|failed" | sed 's/ - .*//' | sort | uniq
