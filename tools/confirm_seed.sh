#!/bin/bash
# usage: tools/confirm_seed.sh <Cxx> <out_dir with patch.diff, demo.py> [checks to run, default the property itself] 
# Confirms a seeded defect independently: patch applies to /repo HEAD, repository suite still passes (3 baseline failures),
# demo fails with / passes without the patch, and runs the given quick checks against the patched scratch worktree.
ID="$1"; OUT="$(realpath $2)"; shift 2; CHECKS="${@:-$ID}"
WT=/tmp/cf_$ID
git -C /repo worktree remove --force $WT 2>/dev/null
git -C /repo worktree add -q --detach $WT HEAD || exit 2
echo "== demo on clean tree"; SKACTIVEML_PATH=$WT PYTHONPATH=$WT timeout 300 /venv/bin/python $OUT/demo.py > /tmp/cf_$ID.clean.out 2>&1; echo "exit=$?"; tail -2 /tmp/cf_$ID.clean.out
git -C $WT apply $OUT/patch.diff || { echo PATCH-DOES-NOT-APPLY; exit 2; }
git -C $WT diff --stat | tail -1
echo "== demo on patched tree"; SKACTIVEML_PATH=$WT PYTHONPATH=$WT timeout 300 /venv/bin/python $OUT/demo.py > /tmp/cf_$ID.patched.out 2>&1; echo "exit=$?"; tail -3 /tmp/cf_$ID.patched.out
if [ -z "$SKIP_TESTS" ]; then echo "== repository suite on patched tree"; (cd $WT && /venv/bin/python -m pytest -q -p no:cacheprovider --timeout=900 -n ${NPY:-14} skactiveml 2>&1 | grep -E "^(FAILED|SUBFAILED|ERROR)|passed|failed" | sed 's/ - .*//' | tail -6); fi
for c in $CHECKS; do echo "== check $c quick on patched tree"; (cd /verif && VERIF_REPO=$WT ./run.sh check $c quick 2>&1 | grep -v "^KNOWN" | cut -c1-260 | head -8); done
git -C /repo worktree remove --force $WT
