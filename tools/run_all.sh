#!/bin/bash
# runs every check's quick (or $1) tier on /repo, prints one summary line per check
TIER="${1:-quick}"
cd /verif
for i in $(seq -w 1 20); do
  s=$(date +%s); ./run.sh check C$i $TIER > /tmp/probe/all_C$i.out 2>&1; rc=$?; e=$(date +%s)
  echo "C$i rc=$rc wall=$((e-s))s known=$(grep -c '^KNOWN-FINDING' /tmp/probe/all_C$i.out) viol=$(grep -c '^VIOLATION' /tmp/probe/all_C$i.out)"
done
