#!/bin/bash
# runs every check's quick (or $1) tier on /repo, prints one summary line per check; logs under ./run_all_logs/ (relative to this tree)
TIER="${1:-quick}"; shift
cd "$(dirname "$0")/.."
mkdir -p run_all_logs
LIST="${@:-$(seq -w 1 20)}"
for i in $LIST; do
  s=$(date +%s); ./run.sh check C$i $TIER > run_all_logs/C${i}_$TIER.out 2>&1; rc=$?; e=$(date +%s)
  echo "C$i $TIER rc=$rc wall=$((e-s))s known=$(grep -c '^KNOWN-FINDING' run_all_logs/C${i}_$TIER.out) viol=$(grep -c '^VIOLATION' run_all_logs/C${i}_$TIER.out) $(grep -E '^C[0-9]+ ' run_all_logs/C${i}_$TIER.out | cut -c1-230)"
done
