#!/bin/bash
# usage: tools/serial_suite.sh <tree> <tag>   -> runs the repository's baseline command (serial, as in /root/.vp/BASELINE.json) and prints failed ids
T="$1"; TAG="$2"
cd "$T" && OMP_NUM_THREADS=1 OPENBLAS_NUM_THREADS=1 /venv/bin/python -m pytest -ra -q -p no:cacheprovider --timeout=900 --continue-on-collection-errors --junitxml=/tmp/probe/junit_$TAG.xml > /tmp/probe/serial_$TAG.out 2>&1
grep -E "^(FAILED|ERROR|SUBFAILED)|passed|failed" /tmp/probe/serial_$TAG.out | sed 's/ - .*//' | sort | uniq
# the suite writes image artefacts next to the expected images; remove the untracked ones so that they never end up in a commit
git -C "$T" clean -fdq -- skactiveml/visualization/tests/images 2>/dev/null
