#!/usr/bin/env python3
"""Copies confirmed sub-agent defects into /verif/seeded/<id>/ with meta.json."""
import json, os, shutil, sys

SEEDS = {
 "C01": dict(prop="C01", file="skactiveml/utils/_selection.py (rand_argmax)", needs="a strategy that uses -inf as a sentinel and calls rand_argmax itself (TypiClust with an index subset, batch_size >= 2, a cluster without remaining candidate): NaN (already selected) ties with -inf",
             caught_by=["C18 (rand_argmax not_an_optimum)"], note="C01 itself substitutes rand_argmax by its specification, so on this tree it reports engine errors (conformance mismatch: the real primitive left the explored model) - the assumption it rests on is exactly what C18 decides", first_version="caught (by C18)"),
 "C03": dict(prop="C03", file="stream/budgetmanager/_balanced_incremental_quantile_filter.py (query_by_utility)", needs="history window saturated (>= w updates) and a multi-instance or repeated query", caught_by=["C03"], first_version="caught"),
 "C04": dict(prop="C04", file="stream/_stream_baselines.py (StreamRandomSampling.query)", needs="allow_exceeding_budget=False, chunks of > 1 instance, budget limit crossed inside a chunk", caught_by=["C04"], first_version="caught"),
 "C05": dict(prop="C05", file="pool/_query_by_committee.py (_check_ensemble)", needs="ensemble given as a single estimator (not a list), sample_weight passed, fit_ensemble=True", caught_by=["C05"], first_version="caught"),
 "C06": dict(prop="C06", file="pool/_typi_clust.py (query)", needs="a non-empty caller-owned cluster_algo_dict without random_state and at least two queries sharing that dict", caught_by=["C06", "C05"], first_version="MISSED: C06/C05 only used cluster_algo_dict=None and a dict that contains random_state; both now include caller-owned {'n_init': 1} dicts shared by twin strategies"),
 "C07": dict(prop="C07", file="pool/multiannotator/_wrapper.py (_query_annotators)", needs="a boolean availability matrix with an empty row whose sample the wrapped strategy ranks first, batch large enough to spill over", caught_by=["C07"], first_version="caught"),
 "C08": dict(prop="C08", file="pool/_greedy_sampling.py (GreedySamplingX.query)", needs="cold start (no labeled sample) and feature-row candidates", caught_by=["C08"], first_version="caught"),
 "C09": dict(prop="C09", file="classifier/_wrapper.py (SklearnClassifier._fit)", needs="a non-identity label encoding and a label state in which the wrapped estimator cannot be fitted although labels exist (one class only)", caught_by=["C09"], first_version="caught"),
 "C10": dict(prop="C10", file="stream/budgetmanager/_balanced_incremental_quantile_filter.py (query_by_utility)", needs="saturated history window and a chunk of >= 2 instances", caught_by=["C10"], first_version="caught"),
 "C11": dict(prop="C11", file="base.py (SkactivemlClassifier._validate_data)", needs="classes declared in a cyclically rotated order (3+ classes) and an asymmetric cost matrix", caught_by=["C11"], first_version="caught"),
 "C12": dict(prop="C12", file="utils/_aggregation.py (compute_vote_vectors)", needs="a float64 sample_weight array reused for a second fit after labels were revealed (fit zeroes the caller's weights of unlabeled samples in place)", caught_by=["C12", "C17"],
             first_version="MISSED: C12 compared single fits on fresh arrays; it now also runs two-step label reveals with caller-owned arrays reused and checks that fit leaves them untouched; C17 checks input immutability of compute_vote_vectors"),
 "C13": dict(prop="C13", file="classifier/_wrapper.py (SlidingWindowClassifier._add_samples)", needs="fit, set_params(window_size=...), fit again", caught_by=["C13"], first_version="MISSED: set_params was not in the operation alphabet; it is now (1-2 parameter changes per estimator)"),
 "C14": dict(prop="C14", file="pool/_falcun.py (query)", needs="batch_size >= 2 with at least one but fewer than batch_size uncertain candidates and a candidate with an exactly one-hot prediction", caught_by=["C14", "C01"],
             first_version="MISSED: no pool of the grid produced exactly one-hot probabilities next to uncertain ones; pools far4/far5 (kernel underflow) were added to the C01/C02/C14 grids"),
 "C15": dict(prop="C15", file="regressor/_nic_kernel_regressor.py (_estimate_ml_params)", needs="targets with a large common offset (|y| ~ 1e9): catastrophic cancellation makes the local variance negative", caught_by=["C15"], first_version="caught by the version that was current when it was confirmed (target vectors with a 1.7e9 offset had just been added; the improper-prior sample_y clause also fires without the offset)"),
 "C16": dict(prop="C16", file="utils/_label.py (is_unlabeled)", needs="an empty two-dimensional label array of shape (0, k)", caught_by=["C16"], first_version="MISSED: the oracle exempted empty arrays from the shape comparison and treated every 2-D array with an empty axis as a rejection; shapes (0, k) are now judged strictly"),
 "C17": dict(prop="C17", file="utils/_aggregation.py (compute_vote_vectors)", needs="explicit 2-D weights whose memory layout differs from y's (transposed view / Fortran order)", caught_by=["C17"], first_version="MISSED: all arrays were C-ordered; weight cases now run every C/F layout combination"),
 "C19": dict(prop="C19", file="pool/utils.py (IndexClassifierWrapper.partial_fit)", needs="an earlier fit/partial_fit with an explicit sample_weight that differs from the constructor's weights, followed by a partial_fit on the refit path", caught_by=["C19"], first_version="MISSED: the operation alphabet had label overrides but no sample_weight overrides; it has now"),
 "C20": dict(prop="C20", file="pool/_wrapper.py (ParallelUtilityEstimationWrapper.query)", needs="an exact tie of the maximal utility (cold start, duplicated points) and an integer random_state", caught_by=["C20"], first_version="caught"),
}

# round 2: sub-agents were told where the round-1 attempt for their property was made and asked for a different function and mechanism
SEEDS.update({
 "C01b": dict(prop="C01", file="pool/_core_set.py (_update_distances)", needs="coincident samples such that, inside one batch, every remaining candidate is at distance 0 of an earlier pick, at least two earlier picks in that batch, and a tie-break that lands on one of them", caught_by=["C01", "C14"], first_version="caught (duplicate_index on the duplicated-point pool under a non-default tie tape)",
              note="a second sub-agent (property C14) independently delivered the same change of the same function (seeded/C14b is therefore not kept separately); C14 reports it as well (cycle 1, batch size 3, indices [2, 1, 2])"),
 "C02b": dict(prop="C02", file="pool/_typi_clust.py (query)", needs="batch_size >= 2 and a cluster whose most typical sample was already selected in an earlier step (argmax over the unmasked typicality)", caught_by=["C02", "C01"], first_version="caught"),
 "C03b": dict(prop="C03", file="stream/_cognitive_dual_query_strategy.py (query)", needs="a query of a chunk with more than one instance: the loop variable overwrites the saved clock, so the simulated state is not rolled back", caught_by=["C03"], first_version="caught"),
 "C04b": dict(prop="C04", file="stream/budgetmanager/_estimated_budget_zliobaite.py (VariableUncertaintyBudgetManager.update)", needs="update of a chunk of more than one instance with a granted label that is not the last instance of the chunk", caught_by=["C04", "C10"], first_version="caught"),
 "C05b": dict(prop="C05", file="utils/_aggregation.py (compute_vote_vectors)", needs="a float64 sample_weight array and at least one unlabeled sample (the weights of unlabeled samples are zeroed in the caller's array)", caught_by=["C05", "C12", "C17"], first_version="caught (the same one-line change as the round-1 seed for C12, delivered independently)"),
 "C06b": dict(prop="C06", file="utils/_validation.py (check_random_state)", needs="random_state given as a RandomState instance and a seed multiplier of exactly 1 (e.g. SubSamplingWrapper at cold start): the caller's generator is returned instead of a derived copy, so repeating the call gives another result", caught_by=["C06"], first_version="caught"),
 "C07b": dict(prop="C07", file="base.py (MultiAnnotatorPoolQueryStrategy._validate_data)", needs="an availability matrix that is not already of dtype bool (integer 0/1) together with SingleAnnotatorWrapper", caught_by=["C07"],
              first_version="MISSED: availability matrices were generated with dtype bool only; C07 now also passes a sample of them as integer 0/1 matrices"),
 "C08b": dict(prop="C08", file="pool/_expected_error_reduction.py (ValueOfInformationEER)", needs="a proper subset of the unlabeled samples as candidates (the other unlabeled samples are dropped from the evaluation set)", caught_by=["C08"], first_version="caught"),
 "C09b": dict(prop="C09", file="base.py (PoolQueryStrategy._validate_data)", needs="NaN as missing label (y == nan is never true), an integer random_state and a strategy whose selection consumes randomness (ties): the derived seed differs between the NaN encoding and every other encoding", caught_by=["C09"],
              first_version="MISSED: C09 ran every encoding under the tie-level substitution with the default tape, which makes the random stream invisible; it now has a real-generator pass on the duplicated-point pool"),
 "C10b": dict(prop="C10", file="stream/budgetmanager/_estimated_budget_zliobaite.py (VariableUncertaintyBudgetManager.update)", needs="update of a chunk with more than one instance (the threshold is adapted once per chunk instead of once per instance)", caught_by=["C10"], first_version="caught"),
 "C11b": dict(prop="C11", file="classifier/_wrapper.py (SklearnClassifier._fit)", needs="declared classes, a wrapped estimator that cannot be fitted (one class observed) and the observed class not being the last declared class", caught_by=["C11"], first_version="caught"),
 "C12b": dict(prop="C12", file="regressor/_wrapper.py (SklearnRegressor._fit)", needs="the same wrapper object fitted twice (label reveal) around a wrapped estimator whose own fit is not history-free (warm_start=True, or a RandomState instance as random_state)", caught_by=["C12", "C13"],
              first_version="MISSED by C12 (caught by C13, which already had a warm-start regressor): the two-step reveal of C12 used a second learner object; it now also refits the same object and includes warm-start / generator-seeded wrapped estimators"),
 "C13b": dict(prop="C13", file="classifier/_parzen_window_classifier.py (fit)", needs="metric_dict given by the caller and gamma='mean' (the resolved gamma is written into the caller's dict before it is copied)", caught_by=["C13"], first_version="caught"),
 "C15b": dict(prop="C15", file="regressor/_wrapper.py (SklearnRegressor._fit)", needs="exactly one labeled sample (or one with non-zero weight) and a wrapped estimator that cannot be fitted on it: the label standard deviation becomes 0 and the fall-back mean NaN", caught_by=["C15"], first_version="caught"),
 "C16b": dict(prop="C16", file="utils/_label_encoder.py (ExtLabelEncoder)", needs="string labels with a string sentinel that is longer than every class name (the stored dtype truncates the sentinel on inverse_transform)", caught_by=["C16"], first_version="caught"),
 "C17b": dict(prop="C17", file="utils/_aggregation.py (majority_vote)", needs="a labeled sample all of whose votes have weight zero", caught_by=["C17"], first_version="caught"),
 "C18b": dict(prop="C18", file="utils/_selection.py (rand_argmin)", needs="an array containing -inf or +inf next to NaN (nan_to_num maps the infinities to finite numbers)", caught_by=["C18"], first_version="caught"),
 "C19b": dict(prop="C19", file="pool/utils.py (IndexClassifierWrapper.fit)", needs="native partial_fit, base model set by fit(set_base_clf=True), then an update of the current model that does not restart from the base, then partial_fit(use_base_clf=True)", caught_by=["C19"],
              first_version="MISSED: the history fit(A, set_base) -> partial_fit(b) was merged with fit(A) -> partial_fit(b, set_base), which has the same attribute *values*; state merging now uses a fingerprint that records which mutable sub-objects are the same object, and the merge key is the product of implementation state and reference-model state (C19, C13, C03/C10, C04)"),
 "C20b": dict(prop="C20", file="pool/_wrapper.py (SubSamplingWrapper.query)", needs="exclude_non_subsample=True and a missing-label sentinel other than NaN", caught_by=["C20", "C09"],
              first_version="MISSED by C20 (caught by C09): C20 used NaN as missing label only; its sub-sampling part now also runs with the reserved number -1"),
})

# round 3: sub-agents were told where both earlier attempts were made and asked for defects that need a longer history, a larger input or a
# combination of options; "first_version" is what the checks as of commit 72c95f7 (before this round) reported, re-run against the patch
SEEDS.update({
 "C01c": dict(prop="C01", file="pool/_typi_clust.py (query)", needs="batch_size >= 2 and a tie that includes an already selected sample (index-subset candidates whose cluster holds no candidate, or duplicated points)", caught_by=["C01", "C02"], first_version="caught"),
 "C02c": dict(prop="C02", file="pool/_core_set.py (_update_distances)", needs="all remaining candidates coincide with labeled / selected points and at least two earlier picks in the batch (batch_size >= 3 on duplicated points)", caught_by=["C02", "C01"], first_version="caught"),
 "C03c": dict(prop="C03", file="stream/_density_uncertainty.py (StreamDensityBasedAL.query)", needs="more than window_size samples, a query before the eviction point and a comparison with an object that reached the same point by update calls only (the state snapshot loses the deque's maxlen)", caught_by=["C03"],
              first_version="MISSED: every transition of the exploration was query+update, so both sides of every comparison had been queried; C03 now also drives a twin that only receives the updates and compares the end states"),
 "C04c": dict(prop="C04", file="stream/budgetmanager/_estimated_budget_zliobaite.py (EstimatedBudgetZliobaite.update)", needs="update of a chunk of >= 2 instances without any granted label after budget was spent (operator precedence wipes the spent-budget estimate)", caught_by=["C04", "C10"], first_version="caught"),
 "C05c": dict(prop="C05", file="pool/_prob_cover.py (query)", needs="deltas given as an unsorted float64 ndarray (sorted in place: the constructor parameter and the caller's array change)", caught_by=["C05"],
              first_version="MISSED: no subject had an array-valued constructor parameter given as ndarray; C05 now has such variants (ProbCover deltas, ProbabilisticAL prior, UncertaintySampling / CostEmbeddingAL cost_matrix)"),
 "C06c": dict(prop="C06", file="utils/_validation.py (check_budget_manager)", needs="an explicitly passed, already used randomised budget manager shared by two strategies and an update on one of them before the other queries (shallow copy shares random_state_)", caught_by=["C06"],
              first_version="MISSED: twin strategies were always built from fresh managers; C06 now builds twins around one caller-owned used manager object"),
 "C07c": dict(prop="C07", file="pool/multiannotator/_wrapper.py (SingleAnnotatorWrapper.query)", needs="n_annotators_per_sample given as an array shorter than batch_size and batch_size larger than the number of selectable samples (query raises)", caught_by=["C07"],
              first_version="MISSED: n_annotators_per_sample was an int in every case; per-rank preference lists were added"),
 "C08c": dict(prop="C08", file="pool/utils.py (IndexClassifierWrapper.partial_fit)", needs="an expected-error-reduction strategy with ignore_partial_fit=False and a classifier with native partial_fit: simulated labels accumulate in the aliased base model, so utilities depend on the candidates evaluated before", caught_by=["C08", "C19"],
              first_version="MISSED by C08 (C19 reported it): all EER subjects used the re-fit path; a MonteCarloEER subject with GaussianNB and ignore_partial_fit=False was added to the pool catalogue (C01, C02, C05, C06, C08, C09, C14)"),
 "C09c": dict(prop="C09", file="classifier/_wrapper.py (SlidingWindowClassifier._add_samples)", needs="only_labeled=True with a window and NaN as missing label (y != nan keeps every unlabeled sample in the window)", caught_by=["C09"],
              first_version="MISSED: the sliding-window subject used only_labeled=False; an only_labeled variant was added to the classifier catalogue (C06, C09, C11, C13)"),
 "C10c": dict(prop="C10", file="stream/budgetmanager/_estimated_budget_zliobaite.py (SplitBudgetManager.update)", needs="budget exhausted at least once and a chunk of >= 2 instances in which an exhausted instance is followed by one with budget (update draws a random number per instance, query only with budget left)", caught_by=["C10"], first_version="caught"),
 "C11c": dict(prop="C11", file="classifier/multiannotator/_annotator_logistic_regression.py (fit)", needs="a refit of the same object on a training set without any label after a fit with labels (old weights survive, no uniform distribution)", caught_by=["C11", "C13"],
              first_version="MISSED: C11 fitted fresh objects only and C13 had no data set without labels; C11 got a refit mode, C13 the data set D0"),
 "C12c": dict(prop="C12", file="classifier/_wrapper.py (SklearnClassifier._fit)", needs="non-uniform sample weights and an unlabeled sample among the first n_classes rows (weights indexed by class index instead of the labeled mask)", caught_by=["C12"], first_version="caught"),
 "C13c": dict(prop="C13", file="classifier/_wrapper.py (SklearnClassifier._fit)", needs="fit(A), fit(U) with all labels missing, then partial_fit(B): the estimator of the first fit is continued", caught_by=["C13"],
              first_version="MISSED: no data set without labels in the operation alphabet (D0 added)"),
 "C14c": dict(prop="C14", file="pool/_badge.py (query)", needs="the all-zero-distance fall-back active for a whole batch (one-hot predictions) and batch_size >= 3", caught_by=["C14", "C01"],
              first_version="MISSED: the violation was swallowed by the known finding about Badge duplicates that existed then (same subject, same kind, same output predicate). That defect has since been repaired in /repo (fix: c3658105), and with the finding gone C14 and C01 report the seed. Lesson recorded in DESIGN 3.7: a known finding hides every defect with the same signature, so findings are repaired whenever the repair is small"),
 "C15c": dict(prop="C15", file="regressor/_nic_kernel_regressor.py (_combine_params)", needs="targets with a large common offset and a prior mean near that level (cancellation in the rewritten scatter term gives a negative variance)", caught_by=["C15"],
              first_version="MISSED: for improper priors the std clause was not judged at all and no proper prior sat near the offset; C15 now judges location / scale (and std where df > 2) for improper priors with >= 2 weighted labels and has a NIC subject whose prior mean is the offset"),
 "C16c": dict(prop="C16", file="utils/_label.py (labeled_indices / unlabeled_indices)", needs="a Fortran-ordered 2-D label array (e.g. np.array([annot_1, annot_2]).T) with a mixed pattern", caught_by=["C16"],
              first_version="MISSED: all arrays were C-contiguous; a third container (Fortran-ordered 2-D arrays, strided 1-D views) was added"),
 "C17c": dict(prop="C17", file="utils/_multi_annot.py (ext_confusion_matrix)", needs="an integer missing_label that coincides with an encoded class index (0 <= missing_label < n_classes)", caught_by=["C17"], first_version="caught (encoding int10/0); encodings int1/0 and intgap/2 were added to C17, int1/0 to C09 and C16"),
 "C18c": dict(prop="C18", file="utils/_selection.py (simple_batch, proportional)", needs="weights of very different magnitude, a NaN / zero weight before the light entries and a batch larger than the number of heavy entries", caught_by=["C18"], first_version="caught; a tiny-weight alphabet (1e-6, 1e-300) was added to the proportional cases all the same"),
 "C19c": dict(prop="C19", file="pool/utils.py (IndexClassifierWrapper.__init__)", needs="a wrapper built around an already fitted classifier with set_base_clf=True, native partial_fit, an update of the current model and then partial_fit(use_base_clf=True)", caught_by=["C19"],
              first_version="MISSED: the wrapper was always built around an unfitted classifier; prefit configurations were added"),
 "C20c": dict(prop="C20", file="pool/multiannotator/_wrapper.py (_n_to_assign_annotators)", needs="n_annotators_per_sample >= 2, a selected sample with fewer available annotators and a batch of >= 3 pairs", caught_by=["C20", "C07"],
              first_version="MISSED by C20 (its order oracle ran with one annotator per sample only; now also with two)"),
})

# round 4: sub-agents were asked for defects in NON-DEFAULT MODES (optional constructor / method parameters, flags, argument formats);
# "first_version" = what the checks as of commit 3b7dc67 (before this round) reported when re-run against the patch (/tmp/oldrun4.sh protocol)
R4 = {
 "C01d": ("C01", "pool/_wrapper.py (SubSamplingWrapper.query)", "exclude_non_subsample=True and candidates given as an index array that does not cover all unlabeled samples", ["C01"], ""),
 "C02d": ("C02", "pool/_falcun.py (query)", "Falcun(gamma=0) (documented as random sampling), batch_size >= 2 and a random collision with an earlier pick (0**0 == 1 gives earlier picks mass again)", ["C02", "C01"],
          "no subject used gamma=0; the pool catalogue now has non-default constructor variants (Falcun[gamma=0], GreedySamplingTarget[n_GSx_samples=2], ProbabilisticAL[m_max,prior], UncertaintySampling[cost_matrix], ValueOfInformationEER[labeled only])"),
 "C03d": ("C03", "stream/budgetmanager/_estimated_budget_zliobaite.py (RandomBudgetManager.query_by_utility)", "a chunk whose utilities are all NaN (the early return skips the generator restore)", ["C03"], ""),
 "C04d": ("C04", "stream/budgetmanager/_threshold_budget.py (DensityBasedSplitBudgetManager.update)", "more than 127 granted labels on one manager (the counter silently becomes an int8 and wraps)", ["C04"],
          "the state graph ends after a dozen instances; C04 now also runs every periodic utility stream (period <= 2) for 600 / 3000 instances and judges the bound at every prefix"),
 "C05d": ("C05", "pool/multiannotator/_interval_estimation_threshold.py (query)", "annotators given as a boolean ndarray with a partially available row (overwritten in place)", ["C05"],
          "the multi-annotator part of C05 skipped partially available rows for IntervalEstimationThreshold (it only needed them for the validity oracle of C07, not for the side-effect oracle)"),
 "C06d": ("C06", "pool/_clue.py (query)", "a non-empty caller-owned cluster_algo_dict without random_state and two queries sharing it", ["C06", "C05"], ""),
 "C07d": ("C07", "base.py (MultiAnnotatorPoolQueryStrategy._transform_cand_annot)", "candidates=None with a boolean availability matrix that has a row without available annotator (IndexError)", ["C07"], ""),
 "C08d": ("C08", "pool/_wrapper.py (SubSamplingWrapper.query)", "exclude_non_subsample=True, return_utilities=False and index / None candidates: the selection is not translated back to the caller's index space", ["C01", "C20"],
          "C08 itself always requests utilities (C01 reported the defect as a selected non-candidate); C20 now requires the selection to be independent of return_utilities"),
 "C09d": ("C09", "pool/utils.py (IndexClassifierWrapper.fit)", "an expected-error-reduction strategy queried with non-integral sample_weight and int / string labels (weights cast to the label dtype)", ["C09"],
          "C09 never passed sample_weight; it now has a pass with non-integral weights for every strategy that accepts them"),
 "C10d": ("C10", "stream/_stream_baselines.py (StreamRandomSampling.query)", "allow_exceeding_budget=False and a chunk in which the budget limit is crossed", ["C10", "C04"], ""),
 "C11d": ("C11", "classifier/_wrapper.py (SlidingWindowClassifier._add_samples)", "only_labeled=True, an earlier fit with labels and then fit on a batch without any label (window not reset)", ["C11", "C13"], ""),
 "C12d": ("C12", "regressor/_nic_kernel_regressor.py (fit)", "sample_weight with a zero at a labeled sample and an unlabeled sample before a labeled one (features taken from the wrong rows)", ["C12"],
          "weights of labeled samples were strictly positive in every pattern; a pattern with zeros at labeled rows was added"),
 "C13d": ("C13", "classifier/_mixture_model_classifier.py (fit)", "an unfitted mixture_model given by the caller and two fits on different data (the caller's mixture is fitted in place and reused)", ["C13"], ""),
 "C14d": ("C14", "pool/_greedy_sampling.py (GreedySamplingTarget.query)", "a batch that is split into a GSx and a GSi/GSy part (n_labeled < n_GSx_samples < n_labeled + batch_size)", ["C14", "C01"], ""),
 "C15d": ("C15", "regressor/_wrapper.py (SklearnRegressor.predict)", "fall-back prediction (estimator not fitted), a non-integral label mean and integer-typed query points", ["C15"],
          "query points were float arrays only; predictions for integer-typed query points are now compared with those for the same points as floats"),
 "C16d": ("C16", "utils/_label.py (check_missing_label)", "missing_label given as a numpy scalar (np.int64(-1), np.float32(-1)): TypeError", ["C16"],
          "sentinels were Python scalars only, and the oracle accepted every TypeError as a documented rejection; numpy-scalar sentinels were added and only the one documented rejection (empty list + string sentinel) is accepted"),
 "C17d": ("C17", "utils/_label.py (is_unlabeled)", "a string sentinel that is longer than the array's string width and a label that is a prefix of it ('n' vs 'nan' in a fully annotated <U1 matrix)", ["C17", "C16"],
          "no label was a prefix of its sentinel; encodings strprefix/nan were added to C16 and C17"),
 "C18d": ("C18", "utils/_selection.py (simple_batch)", "utilities given as an array that is neither C- nor F-contiguous, return_utilities=True and batch_size >= 2", ["C18"],
          "inputs were contiguous; every max-mode case is now also run on a strided view"),
 "C19d": ("C19", "classifier/_parzen_window_classifier.py (fit)", "metric_dict={'gamma': 'mean'}: the bandwidth of the first fit is frozen in the caller's dict", ["C19", "C13"],
          "C19's Parzen window classifier had a fixed bandwidth (C13 reported the defect); gamma='mean' configurations were added to C19"),
 "C20d": ("C20", "pool/multiannotator/_wrapper.py (SingleAnnotatorWrapper.query)", "A_perf with values <= -1 and a gap > 1 (normalisation leaves [0, 1)) and n_annotators_per_sample >= 2", ["C20", "C07"],
          "A_perf was [0.5, 0.5] or None; a negative-valued vector was added to C07 and to the order oracle of C20"),
}
_old4 = {}
if os.path.exists("/tmp/probe/oldrun4.out"):
    for ln in open("/tmp/probe/oldrun4.out"):
        f = ln.split()
        if len(f) == 3 and f[2].startswith("violations="):
            _old4[f[0]] = int(f[2].split("=")[1])
for _sid, (_prop, _file, _needs, _by, _why) in R4.items():
    _n = _old4.get(_sid)
    _fv = "not re-run" if _n is None else ("caught" if _n > 0 else "MISSED" + (": " + _why if _why else ""))
    if _n is not None and _n > 0 and _why:
        _fv = "caught by the previous version; strengthened all the same: " + _why
    SEEDS[_sid] = dict(prop=_prop, file=_file, needs=_needs, caught_by=_by, first_version=_fv)

# round 5: edge sizes, unusual-but-legal input forms, interplay of two components; "first_version" = the checks as of commit daf101d
# (before this round) re-run against the patch (/tmp/oldrun5.sh protocol)
R5 = {
 "C01e": ("C01", "pool/_greedy_sampling.py (GreedySamplingTarget.query, is_queried mask)", "cold start (n_labeled < n_GSx_samples), a batch that crosses the GSx -> GSi/GSy switch and a second-phase pick stored directly before a first-phase pick", ["C01", "C14"], ""),
 "C02e": ("C02", "pool/_greedy_sampling.py (GreedySamplingTarget.query, index translation)", "same region and same one-line change as the round-4 seed for C14 (delivered independently)", ["C02", "C01", "C14"], ""),
 "C03e": ("C03", "stream/budgetmanager/_estimated_budget_zliobaite.py (RandomVariableUncertaintyBudgetManager.query_by_utility)", "a chunk of > 1 instances that starts with the budget exhausted and regains it inside the chunk (generator restore decided once per chunk)", ["C03"], ""),
 "C04e": ("C04", "base.py (BudgetManager._validate_budget)", "a used manager whose budget is lowered by set_params and that continues on the stream (resolved budget_ cached)", ["C13"],
          "outside the literal quantifier of C04 (no budget change in mid-stream is claimed there); C13 (nothing resolved earlier may survive set_params) now checks that budget_ follows set_params(budget=...)"),
 "C05e": ("C05", "pool/_expected_error_reduction.py (ExpectedErrorReduction.query)", "random_state given as a RandomState instance: the constructor parameter itself is handed to simple_batch and consumed", ["C05", "C06"],
          "C05 ran every query under the substituted generator, which never touches the caller's instance; it now has a lane with the real generator and a RandomState parameter whose state must not move"),
 "C06e": ("C06", "base.py (SkactivemlClassifier._validate_data)", "the same classifier object fitted twice with an integer seed and randomness drawn in between (cost ties in predict)", ["C06"],
          "C06 built a fresh classifier for every run; fit/predict is now also repeated on the same object"),
 "C07e": ("C07", "pool/multiannotator/_wrapper.py (_get_order_preserving_s_query)", "a wrapped strategy that emits -inf utilities (TypiClust) together with an availability row without any annotator", ["-"],
          "NOT ADDRESSED: the wrappers explored by C07 (RandomSampling, UncertaintySampling) never emit -inf, and the availability patterns that trigger it coincide with the open non-termination finding (empty availability row ranked into the batch); stated as a limit in DESIGN 8"),
 "C08e": ("C08", "base.py (PoolQueryStrategy._validate_data, seed multiplier)", "a strategy with internal randomness (bootstrap in ExpectedModelChangeMaximization, MDS in CostEmbeddingAL), an integer seed and a candidate subset", ["C08"],
          "C08 compared restrictions under the substituted generator only; restrictions are now also compared under the real generator with an integer seed"),
 "C09e": ("C09", "pool/_discriminative_al.py (query)", "a discriminator whose missing_label is set to a non-default sentinel (None / string / 0 / 1)", ["C09"],
          "the catalogue handed DiscriminativeAL a discriminator built with the default sentinel whatever the encoding ('set consistently on the strategy and its models' was not honoured by my own harness); it now gets the encoding's sentinel"),
 "C10e": ("C10", "stream/budgetmanager/_estimated_budget_zliobaite.py (RandomBudgetManager.query_by_utility)", "NaN utilities inside a chunk of > 1 instances (charged to the simulated budget but never committed)", ["C10"], ""),
 "C11e": ("C11", "base.py (ClassFrequencyEstimator.predict_proba)", "a row whose total frequency mass is positive but below machine epsilon (query point at moderate distance, tiny weights)", ["C11"],
          "the far query point underflows to exactly 0; a mid-far point (mass ~1e-22) was added"),
 "C12e": ("C12", "classifier/_parzen_window_classifier.py (fit)", "a fixed bandwidth given as np.float32 / np.int64 / 0-d array (treated like gamma='mean', so unlabeled samples change the bandwidth)", ["C12"],
          "bandwidths were Python floats; a subject with gamma=np.float32(0.5) was added to the classifier catalogue"),
 "C13e": ("C13", "classifier/_wrapper.py (SklearnClassifier.__sklearn_is_fitted__)", "an already fitted wrapped estimator, a predict before the first fit and then partial_fit: the caller's estimator is trained in place", ["C13"],
          "wrapped estimators were unfitted; a subject with a prefitted, caller-owned GaussianNB (full fingerprint watched) was added"),
 "C14e": ("C14", "pool/_epistemic_uncertainty_sampling.py (_epistemic_uncertainty_pwc)", "precompute=True and a fractional kernel frequency in (1, 2): the lookup grid is not enlarged, utilities become NaN and candidates are dropped", ["C14", "C01"], ""),
 "C15e": ("C15", "base.py (ProbabilisticRegressor.sample_y)", "random_state=0 (falsy) is replaced by the regressor's own stateful generator", ["C15"],
          "sample_y was called with seed 7 only; seed 0 was added"),
 "C16e": ("C16", "utils/_label.py (is_labeled)", "an integer label array with a float-typed sentinel of integral value (-1.0, np.float64(0))", ["C16"],
          "integer arrays came with integer sentinels only; encodings int/-1.0 and int/np.float64(0) were added"),
 "C17e": ("C17", "utils/_selection.py (rand_argmax / rand_argmin with np.isclose)", "nearly tied weighted votes (weights ~3e5 differing by 1, or ~1e-10)", ["C18"],
          ""),
 "C18e": ("C18", "utils/_selection.py (rand_argmax)", "an infinite maximum (+inf present, or all non-NaN entries -inf)", ["C18"], ""),
 "C19e": ("C19", "pool/utils.py (IndexClassifierWrapper.predict / predict_proba / predict_freq)", "use_speed_up with an unsorted or repeated list of prediction indices (silently sorted and de-duplicated)", ["C19"],
          "predictions were requested for arange(4) only; an unsorted index list with a repetition was added"),
 "C20e": ("C20", "pool/multiannotator/_wrapper.py (_get_order_preserving_s_query)", "batch_size > 1 and a wrapped strategy whose utility rows grow by more than 1 from step to step (CoreSet at cold start, Clue / DropQuery on unscaled features)", ["C20"],
          "the order oracle wrapped UncertaintySampling, RandomSampling and ProbabilisticAL only; CoreSet on four samples at growing distances was added (which also surfaced a genuine defect of the wrapper with partially annotated samples, recorded as a finding)"),
}
_old5 = {}
if os.path.exists("/tmp/probe/oldrun5.out"):
    for ln in open("/tmp/probe/oldrun5.out"):
        f = ln.split()
        if len(f) == 3 and f[2].startswith("violations="):
            _old5[f[0]] = int(f[2].split("=")[1])
# old-version results of round 4: the re-run (oldrun4b, full output kept) overrides the first run where both exist
if os.path.exists("/tmp/probe/oldrun4b.out"):
    for ln in open("/tmp/probe/oldrun4b.out"):
        f = ln.split()
        if len(f) >= 3 and f[2].startswith("violations="):
            _n = int(f[2].split("=")[1])
            _sid = f[0]
            if _sid in R4:
                _prop, _file, _needs, _by, _why = R4[_sid]
                SEEDS[_sid]["first_version"] = ("caught" if _n > 0 and not _why else "caught by the previous version; strengthened all the same: " + _why if _n > 0 else "MISSED" + (": " + _why if _why else ""))
for _sid, (_prop, _file, _needs, _by, _why) in R5.items():
    _n = _old5.get(_sid)
    if _why.startswith("NOT ADDRESSED"):
        _fv = "MISSED. " + _why
    elif _n is None:
        _fv = "not re-run"
    elif _n > 0:
        _fv = "caught" if not _why else "caught by the previous version; strengthened all the same: " + _why
    else:
        _fv = "MISSED" + (": " + _why if _why else "")
    SEEDS[_sid] = dict(prop=_prop, file=_file, needs=_needs, caught_by=_by, first_version=_fv)
INVALID = {"C02": "rand_argmax with np.isclose: FAILS skactiveml/pool/tests/test_uncertainty_sampling.py::TestUncertaintySampling::test_query under the repository's serial baseline command (it only passes under pytest-xdist, which the sub-agent used); not kept. C02 (real-seed runs) and C18 (near-tie alphabet, added because of it) both report it.",
           "C18": "identical patch to the C02 attempt (np.isclose in rand_argmax); not kept for the same reason."}


def main():
    home = os.path.dirname(os.path.dirname(os.path.abspath(__file__)))
    for sid, m in SEEDS.items():
        src = ("/tmp/seed5/%s_out" if sid.endswith("e") else "/tmp/seed4/%s_out" if sid.endswith("d") else "/tmp/seed3/%s_out" if sid.endswith("c") else "/tmp/seed/%s_out") % sid
        dst = os.path.join(home, "seeded", sid)
        os.makedirs(dst, exist_ok=True)
        for f in ("patch.diff", "demo.py", "notes.md"):
            if os.path.exists(os.path.join(src, f)):
                shutil.copy(os.path.join(src, f), os.path.join(dst, f))
        serial = ""
        if not os.path.isdir(src) and os.path.exists(os.path.join(dst, "meta.json")):
            continue  # already stored in an earlier session
        p = "/tmp/probe/ss_%s.txt" % sid
        if os.path.exists(p):
            serial = [l.strip() for l in open(p) if "passed" in l][-1:] or [""]
            serial = serial[0]
        meta = {
            "breaks_property": m["prop"],
            "changed": m["file"],
            "needs_to_manifest": m["needs"],
            "origin": "independent sub-agent that saw only the text of the property and its own scratch worktree",
            "confirmed_by_me": {
                "patch_applies_to": "/repo HEAD (scratch worktree)",
                "repository_suite_serial_baseline_cmd": serial or "see MUTATIONS.md",
                "demo": "demo.py exits 0 on the clean tree and 1 on the patched tree",
                "commands": ["tools/confirm2.sh %s <checks>" % sid if sid.endswith("b") else "tools/confirm_seed.sh %s seeded/%s" % (sid, sid),
                             "tools/serial_suite.sh <patched worktree> %s" % sid],
            },
            "caught_by": m["caught_by"],
            "first_version_of_the_checks": m["first_version"],
        }
        if "note" in m:
            meta["note"] = m["note"]
        json.dump(meta, open(os.path.join(dst, "meta.json"), "w"), indent=1)
    json.dump(INVALID, open(os.path.join(home, "seeded", "NOT_KEPT.json"), "w"), indent=1)
    print("seeded:", sorted(SEEDS))
    for sid, m in sorted(SEEDS.items()):
        print("| %s | %s | %s | %s | %s |" % (sid, m["prop"], m["file"], ", ".join(m["caught_by"]), m["first_version"]))


if __name__ == "__main__":
    main()
