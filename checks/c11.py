"""C11 - classifier outputs are valid probabilities and consistent decisions.

All labelings of small training pools over {missing, 0, 1, 2} (single
annotator: 4 samples; multi annotator: 3 samples x 2 annotators), with and
without declared classes (sorted and unsorted), cost matrices {None, 0/1,
asymmetric}, sample weights, query points = training points + a far point
(kernel underflow). predict is executed under every resolution of its cost
ties (tape). Oracle: simplex, column order, decision in arg-min of the
reference expected cost, non-negative frequencies, uniform without labels.
"""
import itertools
import warnings

import numpy as np

from mc import tape as T
from mc.acc import Acc
from subjects import models as M

PROPERTY = "C11"
NAN = float("nan")
META = {
    "rule": "one case = (classifier variant, pool, labeling, classes mode, cost matrix, weights, fit mode); trivial = classes=None and "
    "no label (documented ValueError); distinct = distinct tuple; predict runs all cost-tie tapes",
    "assumptions": ["pools of 4 points (3 x 2 annotators for multi-annotator classifiers), 3 classes", "row sums: 1e-9 for native estimators, "
                    "1e-6 for wrapped scikit-learn estimators; far query point only for kernel classifiers",
                    "decision oracle: predicted class within 1e-9 of the minimal reference expected cost"],
}
COSTS = {
    "none": None,
    "01": [[0, 1, 1], [1, 0, 1], [1, 1, 0]],
    "asym": [[0, 1, 4], [2, 0, 1], [1, 3, 0]],
}
CLASS_MODES = {"None": None, "sorted": [0, 1, 2], "unsorted": [2, 0, 1], "tens": [10, 20, 30]}
LABEL_MAP = {"tens": {0: 10, 1: 20, 2: 30}}


def bounds(tier):
    q = tier == "quick"
    return {
        "classifiers": [c.name for c in M.CLASSIFIERS],
        "pools": ["line4", "dup4"] if q else ["line4", "dup4", "grid4"],
        "label_alphabet": ["missing", 0, 1, 2],
        "class_modes": list(CLASS_MODES),
        "cost_matrices": COSTS,
        "weights": "None for every labeling; all of {0,1,2}^4 for 3 labelings of line4" if q else "None; all of {0,1,2}^4 for 6 labelings",
        "fit_modes": ["fit", "partial_fit x2 (classifiers with partial_fit)", "refit: fit on a fully labeled set first, then on the case (labelings with <= 1 class present)"],
    }


def shards(tier, seed):
    miss = M.check_complete()
    if miss:
        raise RuntimeError("estimators without descriptor: %s" % miss)
    b = bounds(tier)
    out = []
    for c in M.CLASSIFIERS:
        for p in b["pools"]:
            parts = max(1, int(c.cost))
            for part in range(parts):
                out.append({"tier": tier, "clf": c.name, "pool": p, "part": part, "of": parts})
    return out


def shard_cost(spec):
    return M.CLF_BY_NAME[spec["clf"]].cost


def _y(lab, multi, cmode="None"):
    mp = LABEL_MAP.get(cmode, {})
    a = np.array([NAN if v is None else float(mp.get(v, v)) for v in lab], dtype=float)
    return a.reshape(-1, 2) if multi else a


def ref_cost_sets(P, classes_, cmode, cost, tol=1e-9):
    """for every row the set of class labels whose reference expected cost is minimal"""
    given = CLASS_MODES[cmode]
    K = len(classes_)
    out = []
    for p in P:
        costs = []
        for c in classes_:
            if cost is None or given is None:
                costs.append(sum(p[k] for k in range(K) if classes_[k] != c))
            else:
                costs.append(sum(p[k] * cost[given.index(classes_[k])][given.index(c)] for k in range(K)))
        m = min(costs)
        out.append({classes_[j] for j in range(K) if costs[j] <= m + tol})
    return out


def exp_classes_of(classes, present):
    return sorted(classes) if classes is not None else list(present)


def run_case(acc, subj, pname, lab, cmode, costname, w, fitmode):
    X = np.array(M.TRAIN_POOLS[pname], dtype=float)
    if subj.multi:
        X = X[:3]
    y = _y(lab, subj.multi, cmode)
    classes = CLASS_MODES[cmode]
    cost = COSTS[costname]
    mp = LABEL_MAP.get(cmode, {})
    if subj.window is None:
        eff = lab
    elif subj.only_labeled:
        eff = tuple([v for v in lab if v is not None][-subj.window:])  # unlabeled samples never enter the window (fit and partial fits alike)
    else:
        eff = lab[-subj.window:]
    present = sorted(set(int(mp.get(v, v)) for v in eff if v is not None))
    key = (subj.name, pname, lab, cmode, costname, w, fitmode)
    trivial = classes is None and not present
    acc.case(key, trivial=trivial)
    wit = {"classifier": subj.name, "X": X.tolist(), "y": [None if v is None else v for v in lab], "classes": classes, "cost_matrix": cost,
           "sample_weight": None if w is None else list(w), "fit": fitmode}
    rep = {"clf": subj.name, "pool": pname, "lab": [None if v is None else int(v) for v in lab], "cmode": cmode, "cost": costname,
           "w": None if w is None else list(w), "fit": fitmode}
    size = len(present) * 10 + sum(v is not None for v in lab) + (0 if w is None else 5) + (0 if cost is None else 3)
    preds = {"cost": costname, "cmode": cmode, "n_present": len(present), "fit": fitmode,
             "classes_are_range": bool(exp_classes_of(classes, present) == list(range(len(exp_classes_of(classes, present)))))}

    def viol(kind, detail, extra=None):
        acc.violation(subj.name, kind, detail, wit, dict(preds, **(extra or {})), rep, size)

    sw = None if w is None else (np.array(w, dtype=float).reshape(y.shape))
    try:
        with warnings.catch_warnings():
            warnings.simplefilter("ignore")
            clf = subj.make(classes=classes, cost_matrix=cost, random_state=0)
            if fitmode == "refit":
                # the same object was trained on a fully labeled set before (all three classes): nothing of it may survive the second fit
                y_full = _y(tuple([0, 1, 2, 0, 1, 2][: (6 if subj.multi else 4)]), subj.multi, cmode)
                clf.fit(X, y_full)
                clf.fit(X, y)
            elif fitmode == "fit":
                clf.fit(X, y) if sw is None else clf.fit(X, y, sample_weight=sw)
            else:
                h = len(X) // 2
                if sw is None:
                    clf.partial_fit(X[:h], y[:h])
                    clf.partial_fit(X[h:], y[h:])
                else:
                    clf.partial_fit(X[:h], y[:h], sample_weight=sw[:h])
                    clf.partial_fit(X[h:], y[h:], sample_weight=sw[h:])
        acc.transitions += 1
    except ValueError as e:
        if trivial and "No class label is known" in str(e):
            acc.reject("ValueError: no class label known (classes=None, no labels)")
            return
        viol("exception_in_fit:ValueError", str(e)[:200], {"exc": str(e)[:60]})
        return
    except Exception as e:
        viol("exception_in_fit:" + type(e).__name__, str(e)[:200], {"exc": str(e)[:60]})
        return
    if trivial:
        viol("no_rejection_without_classes", "fit succeeded without any class information")
        return
    # kernel classifiers: a far point (kernel mass underflows to exactly 0) and a mid-far point (mass positive but far below machine epsilon)
    Q = X if not subj.kernel else np.vstack([X, [M.FAR[X.shape[1]]], [M.MIDFAR[X.shape[1]]]])
    classes_ = [c.item() if hasattr(c, "item") else c for c in clf.classes_]
    exp_classes = sorted(classes) if classes is not None else present
    if [float(c) for c in classes_] != [float(c) for c in exp_classes]:
        viol("classes_attribute", "classes_=%s expected %s" % (classes_, exp_classes))
        return
    K = len(classes_)
    try:
        with warnings.catch_warnings():
            warnings.simplefilter("ignore")
            P = np.asarray(clf.predict_proba(Q), dtype=float)
            Fq = np.asarray(clf.predict_freq(Q), dtype=float) if subj.freq else None
        acc.transitions += 1 + (1 if subj.freq else 0)
    except Exception as e:
        viol("exception_in_predict_proba:" + type(e).__name__, str(e)[:200], {"exc": str(e)[:60]})
        return
    acc.traces_validated += 1
    if P.shape != (len(Q), K):
        viol("proba_shape", "shape %s expected %s" % (P.shape, (len(Q), K)))
        return
    if not np.all(np.isfinite(P)):
        viol("proba_not_finite", "P=%s" % P.tolist())
        return
    if np.any(P < 0):
        viol("proba_negative", "P=%s" % P.tolist())
    tol = 1e-9 if subj.name.split("[")[0] != "SklearnClassifier" else 1e-6
    if np.any(np.abs(P.sum(axis=1) - 1) > tol):
        viol("proba_rows_do_not_sum_to_one", "row sums %s" % P.sum(axis=1).tolist())
    if Fq is not None:
        if Fq.shape != (len(Q), K) or np.any(~(Fq >= 0)):
            viol("freq_negative_or_misshaped", "F=%s" % Fq.tolist())
    n_lab = sum(v is not None for v in eff)
    if n_lab == 0 and subj.own_proba:
        if np.any(np.abs(P - 1.0 / K) > 1e-12):
            viol("not_uniform_without_labels", "P=%s" % P.tolist())
    # column order: a single observed class must be the most probable one at its own training points
    if len(present) == 1 and cost is None:
        c = present[0]
        j = [float(x) for x in classes_].index(float(c))
        rows = [i for i in range(len(X)) if (np.any(~np.isnan(y[i])) if subj.multi else not np.isnan(y[i]))]
        if subj.window is not None and subj.only_labeled:
            rows = rows[-subj.window:]
        elif subj.window is not None:
            rows = [i for i in rows if i >= len(X) - subj.window]
        bad = [i for i in rows if P[i, j] < P[i].max() - 1e-12]
        if bad:
            viol("column_order", "only class %s was observed but column %d is not maximal at training rows %s: P=%s" % (c, j, bad, P[bad].tolist()))
    # decisions under every tie resolution
    ok_sets = ref_cost_sets(P, classes_, cmode, cost)

    if subj.name.startswith("SklearnClassifier") and cost is None and getattr(clf, "is_fitted_", False):
        # lenient reading for wrapped third-party estimators: without a cost matrix the wrapper is only required to hand through the
        # wrapped estimator's own decision (GaussianNB.partial_fit with never observed classes predicts inconsistently with its
        # own predict_proba - scikit-learn behaviour, not the wrapper's)
        with warnings.catch_warnings():
            warnings.simplefilter("ignore")
            try:
                own = clf.estimator_.predict(Q)
                ok_sets = [s | {own[i].item() if hasattr(own[i], "item") else own[i]} for i, s in enumerate(ok_sets)]
            except Exception:
                pass
    captured = {}
    target = clf.estimator_ if subj.window is not None else clf
    orig_pp = target.predict_proba

    def rec_pp(*a, **k):
        r = orig_pp(*a, **k)
        captured["P"] = np.array(r, dtype=float, copy=True)
        return r

    target.predict_proba = rec_pp

    def run(tp):
        captured.clear()
        with warnings.catch_warnings():
            warnings.simplefilter("ignore")
            with T.ties(tp):
                try:
                    return clf.predict(Q)
                except Exception as e:
                    return e

    for tp, yp in T.explore(run, bound=2, max_runs=40):
        acc.transitions += 1
        Pc = P
        if "P" in captured and captured["P"].shape == P.shape:
            # the probabilities this very predict call was based on (they may be random, e.g. hard votes of tied members)
            Pc = captured["P"]
            ok_sets = ref_cost_sets(Pc, classes_, cmode, cost)
        if isinstance(yp, Exception):
            viol("exception_in_predict:" + type(yp).__name__, str(yp)[:200], {"exc": str(yp)[:60]})
            break
        yp = np.asarray(yp)
        if yp.shape != (len(Q),):
            viol("predict_shape", "%s" % (yp.shape,))
            break
        bad_member = [v for v in yp.tolist() if not any(float(v) == float(c) for c in classes_)]
        if bad_member:
            viol("prediction_not_in_classes", "predicted %s, classes_=%s" % (yp.tolist(), classes_))
            break
        bad = [i for i in range(len(Q)) if not any(float(yp[i]) == float(c) for c in ok_sets[i])]
        if bad:
            viol("prediction_not_cost_minimal", "rows %s: predicted %s but minimal expected cost classes are %s (P=%s, tape %s)" % (
                bad, [yp[i].item() for i in bad], [sorted(ok_sets[i]) for i in bad], Pc[bad].round(4).tolist(), tp.choices),
                {"uniform_rows": bool(np.allclose(Pc[bad], 1.0 / K)), "is_fitted": bool(getattr(clf, "is_fitted_", True))})
            break
        acc.outcome((key, tuple(yp.tolist())))


def _cases(subj, pname, tier):
    n = 6 if subj.multi else 4
    labs = list(itertools.product((None, 0, 1, 2), repeat=n))
    if subj.multi and tier == "quick":
        k = 32 if subj.cost >= 6 else 12
        labs = [l for i, l in enumerate(labs) if i % k == 0 or sum(v is not None for v in l) <= 1]
    for lab in labs:
        for cmode in CLASS_MODES:
            costs = ["none"] if cmode == "None" else list(COSTS)
            if cmode in ("unsorted", "tens"):
                costs = ["none", "asym"]
            for costname in costs:
                yield (lab, cmode, costname, None, "fit")
        if len(set(v for v in lab if v is not None)) <= 1:
            yield (lab, "sorted", "none", None, "refit")
        if subj.partial:
            yield (lab, "sorted", "none", None, "partial_fit")
            yield (lab, "sorted", "asym", None, "partial_fit")
    if pname == "line4" and subj.supports_weights:
        wl = [(0, 1, None, 2), (0, 0, 1, None), (None, 1, 1, 1)] if not subj.multi else [(0, 1, None, 2, 1, None), (0, 0, 1, None, 2, 2)]
        if tier == "thorough" and not subj.multi:
            wl += [(2, 1, 0, 0), (None, None, 1, 0), (1, None, None, None)]
        for lab in wl:
            for w in itertools.product((0, 1, 2), repeat=n if n == 4 else 6) if n == 4 else itertools.product((0, 2), repeat=6):
                yield (lab, "sorted", "none", w, "fit")
                yield (lab, "sorted", "asym", w, "fit")


def run_shard(spec):
    import time

    T.install()
    t0 = time.process_time()
    acc = Acc()
    subj = M.CLF_BY_NAME[spec["clf"]]
    for i, (lab, cmode, costname, w, fitmode) in enumerate(_cases(subj, spec["pool"], spec["tier"])):
        if i % spec["of"] != spec["part"]:
            continue
        run_case(acc, subj, spec["pool"], lab, cmode, costname, w, fitmode)
        if i % 503 == 0:
            acc.sample({"classifier": subj.name, "pool": spec["pool"], "labels": list(lab), "classes": cmode, "cost": costname,
                        "weights": None if w is None else list(w), "fit": fitmode}, limit=1)
    acc.states = len(acc.nontrivial)
    acc.count("cpu_s:" + subj.name, int(time.process_time() - t0))
    return acc


def replay(spec):
    T.install()
    acc = Acc()
    subj = M.CLF_BY_NAME[spec["clf"]]
    lab = tuple(None if v is None else int(v) for v in spec["lab"])
    w = None if spec["w"] is None else tuple(int(x) for x in spec["w"])
    run_case(acc, subj, spec["pool"], lab, spec["cmode"], spec["cost"], w, spec["fit"])
    return [(s, k) for (s, k, _p) in acc.groups]
