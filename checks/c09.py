"""C09 - results do not depend on how labels and missing labels are encoded.

Every pool strategy (with consistently configured models), every classifier
and the stream strategies that see labels are executed on all labelings of
small pools under 8 label encodings (order-preserving class renamings x
missing-label sentinels x dtypes). Each encoding is compared with the
float/NaN baseline under the same tape: identical indices and utilities,
identical predict_proba, predictions that are the re-encoded baseline
predictions.
"""
import itertools
import warnings

import numpy as np

from mc import poolrun as PR
from mc import tape as T
from mc.acc import Acc
from subjects import models as M
from subjects import pool as SP
from subjects import stream as SS

PROPERTY = "C09"
NAN = float("nan")
META = {
    "rule": "one case = (subject, pool, labeling, candidate mode, batch size, encoding) compared with the float/NaN baseline; trivial = the "
    "baseline itself is rejected, or the (sentinel, dtype) combination is rejected by check_missing_label (TypeError); distinct = tuple",
    "assumptions": ["pools of 4 points; 2 classes for strategies, 3 for classifiers; default tape (ties to the lowest index) on both sides",
                    "utilities / probabilities compared with rtol 1e-9"],
}

# name -> (class values for 0,1,2 ; missing label ; dtype)
ENC = {
    "float/nan": ([0.0, 1.0, 2.0], NAN, float),
    "float10/nan": ([10.0, 20.0, 30.0], NAN, float),
    "int/-1": ([0, 1, 2], -1, int),
    "int10/0": ([10, 20, 30], 0, int),
    "int1/0": ([1, 2, 3], 0, int),  # the sentinel coincides with an encoded class index (0..K-1)
    "str/empty": (["a", "b", "c"], "", str),
    "str/nan": (["a", "b", "c"], "nan", str),
    "obj-num/None": ([0, 1, 2], None, object),
    "obj-str/None": (["a", "b", "c"], None, object),
}
REG_ENC = {"nan": NAN, "-999": -999.0, "None": None}


def encode(lab, enc):
    vals, ml, dt = ENC[enc]
    data = [ml if v is None else vals[v] for v in lab]
    if dt is object:
        a = np.empty(len(data), dtype=object)
        a[:] = data
        return a
    return np.array(data, dtype=dt)


def encode_reg(lab, enc):
    ml = REG_ENC[enc]
    data = [ml if v is None else 1.5 * v for v in lab]
    if ml is None:
        a = np.empty(len(data), dtype=object)
        a[:] = data
        return a
    return np.array(data, dtype=float)


def input_rejected(y, ml):
    """the (sentinel, dtype) combination itself is rejected by the label predicates (documented TypeError)"""
    from skactiveml.utils import is_unlabeled

    try:
        is_unlabeled(y, missing_label=ml)
        return False
    except TypeError:
        return True
    except Exception:
        return False


def bounds(tier):
    q = tier == "quick"
    return {"encodings": list(ENC), "regression_sentinels": list(REG_ENC), "pool_subjects": [s.name for s in SP.SUBJECTS if s.quick or not q],
            "classifiers": [c.name for c in M.CLASSIFIERS], "stream_subjects": ["FixedUncertainty", "VariableUncertainty", "StreamProbabilisticAL[rbf]"],
            "pools": ["line4", "dup4"] if not q else ["dup4", "line4 (cheap subjects only)"], "candidate_modes": ["none", "rows", "none with the real generator (pool dup4, cheap subjects)", "none with non-integral sample_weight (strategies that accept it)"], "batch_sizes": [1, 2]}


def shards(tier, seed):
    out = []
    for s in SP.SUBJECTS:
        if tier == "quick" and not s.quick:
            continue
        pools = ["dup4", "line4"] if (tier != "quick" or s.cost < 3) else ["dup4"]
        for p in pools:
            out.append({"tier": tier, "what": "pool", "name": s.name, "pool": p})
    for c in M.CLASSIFIERS:
        out.append({"tier": tier, "what": "clf", "name": c.name, "pool": "line4"})
    for n in ("FixedUncertainty", "VariableUncertainty", "StreamProbabilisticAL[rbf]"):
        out.append({"tier": tier, "what": "stream", "name": n, "pool": "line4"})
    return out


def shard_cost(spec):
    if spec["what"] == "pool":
        return SP.BY_NAME[spec["name"]].cost
    if spec["what"] == "clf":
        return M.CLF_BY_NAME[spec["name"]].cost
    return 1


WEIGHTS = [0.7, 1.9, 0.4, 1.3, 0.6, 1.1]


def _has_sample_weight(subj):
    import inspect

    try:
        return "sample_weight" in inspect.signature(subj.strategy_class().query).parameters and "sample_weight" not in subj.query_extra
    except Exception:
        return False


def _pool_query(subj, X, y, ml, classes, cand, bs, real=False, weights=False):
    np.random.seed(PR.GLOBAL_SEED)
    with warnings.catch_warnings():
        warnings.simplefilter("ignore")
        try:
            qs = subj.make(0, ml, classes)
            kw = subj.query_kwargs(X, ml, classes)
            if weights:
                kw["sample_weight"] = np.array(WEIGHTS[: len(X)])  # non-integral weights: nothing may derive their handling from the labels
            if real:
                # the real generator: equal integer seeds must give the same random stream whatever the encoding
                r = qs.query(X.copy(), y.copy(), candidates=cand, batch_size=bs, return_utilities=True, **kw)
                return ("ok", [int(i) for i in np.asarray(r[0]).ravel()], np.asarray(r[1], dtype=float))
            with T.ties(T.Tape()), T.rng_override(PR.rng_factory):
                r = qs.query(X.copy(), y.copy(), candidates=cand, batch_size=bs, return_utilities=True, **kw)
            return ("ok", [int(i) for i in np.asarray(r[0]).ravel()], np.asarray(r[1], dtype=float))
        except Exception as e:
            return ("exc", type(e).__name__, str(e)[:120])


def check_pool(acc, subj, pname, tier, only_lab=None):
    X = SP.pool(pname)
    encs = list(ENC) if subj.task == "clf" else list(REG_ENC)
    for li, lab in enumerate(SP.labelings(len(X))):
        u = PR.unlabeled(lab)
        if not u:
            continue
        if only_lab is not None and lab != only_lab:
            continue
        if tier == "quick" and subj.cost >= 3 and li % 2:
            continue
        for mode, bs in (("none", 1), ("none", 2), ("rows", 1), ("none-real", 2), ("none-weights", 1)):
            real = mode.endswith("-real")
            wts = mode.endswith("-weights")
            if real and (pname != "dup4" or subj.cost >= 3):
                continue  # the real-generator pass runs where ties make the random stream observable
            if wts and not _has_sample_weight(subj):
                continue
            cand = None if mode.startswith("none") else X[u]
            if subj.task == "clf":
                base = _pool_query(subj, X, encode(lab, "float/nan"), NAN, [0.0, 1.0], cand, bs, real, wts)
            else:
                base = _pool_query(subj, X, encode_reg(lab, "nan"), NAN, [0, 1], cand, bs, real, wts)
            acc.transitions += 1
            if base[0] != "ok":
                acc.case((subj.name, pname, lab, mode, bs, "baseline"), trivial=True)
                continue
            for enc in encs[1:]:
                key = (subj.name, pname, lab, mode, bs, enc)
                if subj.task == "clf":
                    vals, ml, dt = ENC[enc]
                    y_enc = encode(lab, enc)
                    o = _pool_query(subj, X, y_enc, ml, vals[:2], cand, bs, real, wts)
                else:
                    ml = REG_ENC[enc]
                    y_enc = encode_reg(lab, enc)
                    o = _pool_query(subj, X, y_enc, ml, [0, 1], cand, bs, real, wts)
                acc.transitions += 1
                wit = {"subject": subj.name, "X": X.tolist(), "labels": list(lab), "encoding": enc, "cand_mode": mode, "batch_size": bs}
                rep = {"what": "pool", "name": subj.name, "pool": pname, "labels": list(lab), "mode": mode, "bs": bs, "enc": enc}
                size = sum(v is not None for v in lab) * 10 + bs
                preds = {"enc": enc, "cand_mode": mode, "sentinel_is_nan": bool(isinstance(ml, float) and ml != ml),
                         "string_labels": "str" in enc,
                         "n_labeled": sum(v is not None for v in lab)}
                if o[0] == "exc" and o[1] == "TypeError" and input_rejected(y_enc, ml):
                    acc.case(key, trivial=True)
                    acc.reject("TypeError: sentinel incompatible with label dtype")
                    continue
                acc.case(key)
                acc.traces_validated += 1
                if o[0] != "ok":
                    acc.violation(subj.name, "encoding_changes_outcome", "baseline succeeds, encoding %s raises %s: %s" % (enc, o[1], o[2]), wit,
                                  dict(preds, exc=o[2][:50]), rep, size)
                    continue
                if o[1] != base[1]:
                    acc.violation(subj.name, "encoding_changes_selection", "baseline selects %s, encoding %s selects %s" % (base[1], enc, o[1]), wit, preds,
                                  rep, size)
                elif o[2].shape != base[2].shape or not np.allclose(o[2], base[2], rtol=1e-9, atol=1e-12, equal_nan=True):
                    acc.violation(subj.name, "encoding_changes_utilities", "baseline utilities %s, encoding %s gives %s" % (
                        np.round(base[2], 6).tolist(), enc, np.round(o[2], 6).tolist()), wit, preds, rep, size)
                acc.outcome((key[:5], tuple(o[1])))
        if li % 31 == 0:
            acc.sample({"subject": subj.name, "pool": pname, "labels": list(lab), "encodings": encs}, limit=1)


def check_clf(acc, subj, tier, only_lab=None):
    X = np.array(M.TRAIN_POOLS["line4"], dtype=float)
    if subj.multi:
        X = X[:3]
    n = 6 if subj.multi else 4
    labs = list(itertools.product((None, 0, 1, 2), repeat=n))
    if subj.multi:
        labs = [l for i, l in enumerate(labs) if i % (32 if tier == "quick" else 8) == 3 or sum(v is not None for v in l) <= 1]
    elif tier == "quick" and subj.cost >= 2:
        labs = [l for i, l in enumerate(labs) if i % 2 == 0]
    Q = X

    def run(lab, enc, cmode):
        vals, ml, dt = ENC[enc]
        y = encode(lab, enc)
        if subj.multi:
            y = y.reshape(-1, 2)
        classes = list(vals) if cmode == "declared" else None
        with warnings.catch_warnings():
            warnings.simplefilter("ignore")
            try:
                clf = subj.make(classes=classes, missing_label=ml, random_state=0)
                clf.fit(X, y)
                with T.ties(T.Tape()):
                    return ("ok", np.asarray(clf.predict_proba(Q), dtype=float), list(np.asarray(clf.predict(Q)).tolist()),
                            list(np.asarray(clf.classes_).tolist()))
            except Exception as e:
                return ("exc", type(e).__name__, str(e)[:120])

    if only_lab is not None:
        labs = [only_lab]
    for li, lab in enumerate(labs):
        for cmode in ("declared", "None"):
            base = run(lab, "float/nan", cmode)
            acc.transitions += 1
            if base[0] != "ok":
                acc.case((subj.name, lab, cmode, "baseline"), trivial=True)
                continue
            for enc in list(ENC)[1:]:
                key = (subj.name, lab, cmode, enc)
                vals, ml, dt = ENC[enc]
                o = run(lab, enc, cmode)
                acc.transitions += 1
                wit = {"classifier": subj.name, "X": X.tolist(), "labels": list(lab), "encoding": enc, "classes": cmode}
                rep = {"what": "clf", "name": subj.name, "labels": list(lab), "cmode": cmode, "enc": enc}
                size = sum(v is not None for v in lab) * 10
                preds = {"enc": enc, "classes": cmode, "sentinel_is_nan": bool(isinstance(ml, float) and ml != ml),
                         "classes_are_range": bool(list(vals) == [0, 1, 2] or list(vals) == [0.0, 1.0, 2.0])}
                if o[0] == "exc" and o[1] == "TypeError" and input_rejected(encode(lab, enc), ml):
                    acc.case(key, trivial=True)
                    acc.reject("TypeError: sentinel incompatible with label dtype")
                    continue
                acc.case(key)
                acc.traces_validated += 1
                if o[0] != "ok":
                    acc.violation(subj.name, "encoding_changes_outcome", "baseline succeeds, encoding %s raises %s: %s" % (enc, o[1], o[2]), wit,
                                  dict(preds, exc=o[2][:50]), rep, size)
                    continue
                # classes_ must be the re-encoded classes
                exp_classes = [vals[[0.0, 1.0, 2.0].index(c)] for c in base[3]]
                if [str(c) for c in o[3]] != [str(c) for c in exp_classes] and [float(c) if not isinstance(c, str) else c for c in o[3]] != exp_classes:
                    acc.violation(subj.name, "encoding_changes_classes", "classes_ %s expected %s" % (o[3], exp_classes), wit, preds, rep, size)
                    continue
                if o[1].shape != base[1].shape or not np.allclose(o[1], base[1], rtol=1e-9, atol=1e-12):
                    acc.violation(subj.name, "encoding_changes_probabilities", "baseline %s, encoding %s gives %s" % (
                        np.round(base[1], 5).tolist(), enc, np.round(o[1], 5).tolist()), wit, preds, rep, size)
                    continue
                exp_pred = [vals[[0.0, 1.0, 2.0].index(float(c))] for c in base[2]]
                got = o[2]
                if [str(c) for c in got] != [str(c) for c in exp_pred] and [float(c) if not isinstance(c, str) else c for c in got] != exp_pred:
                    acc.violation(subj.name, "prediction_not_reencoded", "baseline predicts %s, encoding %s predicts %s (expected %s)" % (
                        base[2], enc, got, exp_pred), wit, preds, rep, size)
        if li % 41 == 0:
            acc.sample({"classifier": subj.name, "labels": list(lab), "encodings": list(ENC)}, limit=1)


def check_stream(acc, name, tier, only_lab=None):
    import skactiveml.stream as S
    from skactiveml.classifier import ParzenWindowClassifier

    X = np.array(M.TRAIN_POOLS["line4"], dtype=float)
    cands = np.array([[0.5], [2.0], [3.0]])

    def run(lab, enc):
        vals, ml, dt = ENC[enc]
        y = encode(lab, enc)
        with warnings.catch_warnings():
            warnings.simplefilter("ignore")
            try:
                clf = ParzenWindowClassifier(classes=list(vals[:2]), missing_label=ml, metric_dict={"gamma": 0.5}, random_state=0)
                if name == "FixedUncertainty":
                    qs = S.FixedUncertainty(classes=list(vals[:2]), budget=0.5, random_state=0)
                elif name == "VariableUncertainty":
                    qs = S.VariableUncertainty(budget=0.5, random_state=0)
                else:
                    qs = S.StreamProbabilisticAL(metric="rbf", budget=0.5, random_state=0)
                idx, ut = qs.query(cands, clf, X=X, y=y, fit_clf=True, return_utilities=True)
                return ("ok", [int(i) for i in idx], np.asarray(ut, dtype=float))
            except Exception as e:
                return ("exc", type(e).__name__, str(e)[:120])

    for lab in ([only_lab] if only_lab is not None else SP.labelings(4)):
        base = run(lab, "float/nan")
        acc.transitions += 1
        if base[0] != "ok":
            acc.case((name, lab, "baseline"), trivial=True)
            continue
        for enc in list(ENC)[1:]:
            key = (name, lab, enc)
            o = run(lab, enc)
            acc.transitions += 1
            wit = {"strategy": name, "X": X.tolist(), "labels": list(lab), "encoding": enc, "candidates": cands.tolist()}
            rep = {"what": "stream", "name": name, "labels": list(lab), "enc": enc}
            if o[0] == "exc" and o[1] == "TypeError" and input_rejected(encode(lab, enc), ENC[enc][1]):
                acc.case(key, trivial=True)
                acc.reject("TypeError: sentinel incompatible with label dtype")
                continue
            acc.case(key)
            acc.traces_validated += 1
            size = sum(v is not None for v in lab)
            if o[0] != "ok":
                acc.violation(name, "encoding_changes_outcome", "baseline succeeds, encoding %s raises %s: %s" % (enc, o[1], o[2]), wit, {"enc": enc, "exc": o[2][:50]},
                              rep, size)
            elif o[1] != base[1] or not np.allclose(o[2], base[2], rtol=1e-9, atol=1e-12, equal_nan=True):
                acc.violation(name, "encoding_changes_utilities", "baseline %s %s, encoding %s gives %s %s" % (
                    base[1], np.round(base[2], 5).tolist(), enc, o[1], np.round(o[2], 5).tolist()), wit, {"enc": enc}, rep, size)


def run_shard(spec):
    T.install()
    acc = Acc()
    if spec["what"] == "pool":
        check_pool(acc, SP.BY_NAME[spec["name"]], spec["pool"], spec["tier"])
    elif spec["what"] == "clf":
        check_clf(acc, M.CLF_BY_NAME[spec["name"]], spec["tier"])
    else:
        check_stream(acc, spec["name"], spec["tier"])
    acc.states = len(acc.nontrivial)
    return acc


def replay(spec):
    T.install()
    acc = Acc()
    lab = tuple(None if v is None else int(v) for v in spec["labels"])
    if spec["what"] == "pool":
        check_pool(acc, SP.BY_NAME[spec["name"]], spec["pool"], "thorough", only_lab=lab)
    elif spec["what"] == "clf":
        check_clf(acc, M.CLF_BY_NAME[spec["name"]], "thorough", only_lab=lab)
    else:
        check_stream(acc, spec["name"], "thorough", only_lab=lab)
    return [(s, k) for (s, k, _p) in acc.groups]
