"""Shared exploration for C01 and C02: the pool query grid.

space = subjects x pools x all labelings x candidate modes x batch sizes x
tie / choice tapes (deviation bound), every execution judged.
"""
import itertools
import time

import numpy as np

from mc import poolrun as PR
from mc import tape as T
from mc.acc import Acc
from subjects import pool as SP

# documented rejections: (exception type name, predicate(case) -> bool)


# the strategies that document that candidates must be (indices of) training samples; every other strategy has to accept feature rows
NO_ROW_CANDIDATES = {"ValueOfInformationEER", "Quire", "DiscriminativeAL", "Clue", "DropQuery", "TypiClust", "ProbCover"}


def is_rejection(subj, exc, mode, lab, bs=1):
    name = type(exc).__name__
    msg = str(exc)
    if name == "MappingError" and mode.startswith("rows") and subj.cls in NO_ROW_CANDIDATES:
        return "MappingError for feature-row candidates (strategy needs a mapping to the training samples)"
    if name == "NotFittedError" and "cannot be used for `partial_fit` as it is unknown where it has been fitted on" in msg:
        return "expected-error-reduction strategies with fit_clf=False need a classifier with a native partial_fit and ignore_partial_fit=False (documented NotFittedError)"
    if name == "ValueError" and mode.startswith("rows") and "a mapping between candidates and the training dataset must exist" in msg:
        return "sample_weight together with feature-row candidates (documented ValueError: no mapping between candidates and training data)"
    if subj.cls == "ParallelUtilityEstimationWrapper" and name == "ValueError" and "`batch_size` must be set to 1" in msg and bs > 1:
        return "ParallelUtilityEstimationWrapper supports only batch_size=1 (documented)"
    return None


def tier_bounds(tier):
    if tier == "quick":
        return dict(pools=["far4", "dup4"], pools_expensive=["dup4"], label_values=[None, 0, 1], max_batch=3, deviation_bound=1,
                    conformance_seeds=1, max_tapes_per_case=60, extra_every=3)
    return dict(pools=["dup5", "far4"], pools_expensive=["dup4", "far4"], label_values=[None, 0, 1],
                max_batch=4, deviation_bound=2, conformance_seeds=2, max_tapes_per_case=100, extra_every=2)


def make_shards(tier, seed, subjects=None):
    b = tier_bounds(tier)
    out = []
    for s in SP.SUBJECTS:
        if subjects and s.name not in subjects:
            continue
        if tier == "quick" and not s.quick:
            continue
        for p in (b["pools"] if s.cost < 3 else b["pools_expensive"]):
            n = len(SP.POOLS[p])
            labs = SP.labelings(n, tuple(b["label_values"]))
            parts = max(1, int(round(s.cost * (2 if tier == "thorough" else 1))))
            for part in range(parts):
                out.append({"tier": tier, "seed": seed, "subject": s.name, "pool": p, "part": part, "of": parts})
    return out


def preds_of(subj, X, lab, mode, cset, bs):
    u = PR.unlabeled(lab)
    rows = [tuple(X[i]) for i in (cset if not mode.startswith("rows") else u)]
    present = sorted(set(v for v in lab if v is not None))
    return {
        "cand_mode": mode,
        "batch_gt1": bool(min(bs, len(cset)) > 1),
        "dup_candidate_rows": bool(len(set(rows)) < len(rows)),
        "cold_start": bool(len(present) == 0),
        "n_classes_present": len(present),
        "proper_subset": bool(mode == "idx" and len(cset) < len(u)),
        "bs_gt_selectable": bool(bs > subj.n_selectable(len(cset))),
    }


def case_size(lab, cset, bs, tape_choices):
    return len(lab) * 100 + sum(1 for v in lab if v is not None) * 10 + bs + len(cset) + 5 * sum(1 for c in tape_choices if c)


def run_case(acc, which, subj, pname, X, lab, mode, cand, bs, bound, max_tapes, conf_seeds, seed0, extra=True):
    y = SP.make_y(lab, subj.task)
    cand_arg, cand_set = PR.materialise(cand, X)
    cset = PR.reference_candidates(lab, cand_arg, cand_set)
    n_cols = len(X) if not mode.startswith("rows") else len(cand_arg)
    nsel = subj.n_selectable(len(cset))
    key = (subj.name, pname, lab, mode, None if cand is None else repr(cand), bs)
    new = acc.case(key, trivial=False)
    preds = preds_of(subj, X, lab, mode, cset, bs)
    wit = {"subject": subj.name, "pool": pname, "X": X.tolist(), "labels": list(lab), "cand_mode": mode,
           "candidates": None if cand is None else (cand if not isinstance(cand, tuple) else list(cand)), "batch_size": bs}

    def rep(tape_choices, how="tape", seed=0):
        return {"subject": subj.name, "pool": pname, "labels": list(lab), "mode": mode,
                "cand": None if cand is None else (list(cand) if isinstance(cand, tuple) else cand), "bs": bs, "tape": list(tape_choices),
                "how": how, "seed": seed, "which": which}

    def judge(out, tape_choices, how, seed=0):
        if out[0] == "timeout":
            acc.violation(subj.name, "no_result_within_horizon", str(out[1]), wit, preds, rep(tape_choices, how, seed),
                          case_size(lab, cset, bs, tape_choices))
            return
        if out[0] == "exc":
            r = is_rejection(subj, out[1], mode, lab, bs)
            if r:
                acc.reject(r)
                return "rejected"
            if which == "C01":
                acc.violation(subj.name, "exception:" + type(out[1]).__name__, "%s: %s" % (type(out[1]).__name__, str(out[1])[:300]),
                              dict(wit, tape=list(tape_choices)), dict(preds, exc=str(out[1])[:80]), rep(tape_choices, how, seed),
                              case_size(lab, cset, bs, tape_choices))
            return
        _, idx, utils = out
        if which == "C01":
            v = PR.judge_c01(idx, cset, bs, nsel)
        else:
            v = PR.judge_c02(idx, utils, cset, bs, n_cols, subj.select)
        p2 = dict(preds, **PR.output_preds(utils, cset, n_cols)) if v else preds
        for kind, detail in v:
            acc.violation(subj.name, kind, "%s [%s %s]" % (detail, how, list(tape_choices)), dict(wit, tape=list(tape_choices)), p2,
                          rep(tape_choices, how, seed), case_size(lab, cset, bs, tape_choices))
        acc.outcome((key, tuple(int(x) for x in np.asarray(idx).ravel()) if np.asarray(idx).dtype.kind in "iu" else repr(idx)))

    def run(tp):
        return PR.run_query(subj, X, y, cand_arg, bs, tp, "substitute", return_utilities=True)

    n = 0
    rejected = False
    first_preds = preds
    for tp, out in T.explore(run, bound, max_runs=max_tapes):
        n += 1
        acc.transitions += 1
        if n == 1 and out[0] == "ok":
            first_preds = dict(preds, **PR.output_preds(out[2], cset, n_cols))
        if judge(out, tp.choices, "tape") == "rejected":
            rejected = True
            break
    if T.explore.capped:
        acc.count("cases_with_tape_cap")
    acc.count("tape_executions", n)
    if rejected or not extra:
        return
    # return_utilities=False must give the same indices for the default tape (C01 only)
    if which == "C01":
        o1 = PR.run_query(subj, X, y, cand_arg, bs, T.Tape(), "substitute", return_utilities=False)
        acc.transitions += 1
        if o1[0] == "ok":
            for kind, detail in PR.judge_c01(o1[1], cset, bs, nsel):
                acc.violation(subj.name, kind, "%s [return_utilities=False]" % detail, wit, first_preds, rep([], "noutil"),
                              case_size(lab, cset, bs, []))
        elif o1[0] == "exc" and not is_rejection(subj, o1[1], mode, lab, bs):
            acc.violation(subj.name, "exception:" + type(o1[1]).__name__, "%s [return_utilities=False]" % (str(o1[1])[:300]), wit,
                          dict(preds, exc=str(o1[1])[:80]), rep([], "noutil"), case_size(lab, cset, bs, []))
    # conformance: real generator observed -> tape -> replay in substituted environment
    for s in range(seed0, seed0 + conf_seeds):
        tp = T.Tape()
        try:
            ro = PR.run_query(subj, X, y, cand_arg, bs, tp, "observe", return_utilities=True, seed=s)
        except (T.Unobservable, T.Divergence) as e:
            acc.count("conformance_unobservable")
            continue
        acc.transitions += 1
        judge(ro, tp.choices, "real-seed", s)
        if tp.unobservable:
            acc.count("conformance_unobservable")
            continue
        try:
            rr = PR.run_query(subj, X, y, cand_arg, bs, T.Tape(tp.choices), "substitute", return_utilities=True, seed=s)
        except T.Divergence as e:
            acc.engine_error("conformance divergence %s: %s" % (rep(tp.choices, "real-seed", s), e))
            continue
        acc.transitions += 1
        if ro[0] == "ok" and rr[0] == "ok":
            same = np.array_equal(np.asarray(ro[1]), np.asarray(rr[1])) and np.array_equal(
                np.asarray(ro[2], dtype=float), np.asarray(rr[2], dtype=float), equal_nan=True)
            if not same:
                acc.engine_error("conformance mismatch %s: real %s vs model %s" % (rep(tp.choices, "real-seed", s), ro[1], rr[1]))
            else:
                acc.traces_validated += 1
        elif ro[0] == rr[0]:
            acc.traces_validated += 1
        else:
            acc.engine_error("conformance mismatch %s: real %s vs model %s" % (rep(tp.choices, "real-seed", s), ro[0], rr[0]))


def option_variants(subj, X, y, mode):
    """Non-default values of the optional query parameters the strategy offers (sample weights, utility weights, a model that is already
    fitted together with fit_*=False, ...). The validity oracles of C01 / C02 do not depend on them."""
    import inspect

    import skactiveml.pool as P

    try:
        sig = inspect.signature(getattr(P, subj.cls).query).parameters
    except Exception:
        return []
    n = len(X)
    out = []
    base = subj.query_kwargs(X)
    if "sample_weight" in sig and "sample_weight" not in base:
        out.append(("sample_weight", dict(base, sample_weight=np.array([1.0, 2.0, 1.0, 2.0, 1.0, 2.0][:n]))))
    if "utility_weight" in sig and not mode.startswith("rows"):
        out.append(("utility_weight", dict(base, utility_weight=np.array([1.0, 0.5, 2.0, 1.0, 0.5, 2.0][:n]))))
    for flag, key in (("fit_clf", "clf"), ("fit_reg", "reg"), ("fit_ensemble", "ensemble")):
        if flag in sig and key in base and not isinstance(base[key], list):
            kw = subj.query_kwargs(X)
            try:
                import warnings

                with warnings.catch_warnings():
                    warnings.simplefilter("ignore")
                    kw[key] = kw[key].fit(X, y)
                kw[flag] = False
                out.append(("prefitted," + flag + "=False", kw))
            except Exception:
                pass
    if "update" in sig:
        out.append(("update=True", dict(base, update=True)))
    if "X_eval" in sig:
        out.append(("X_eval", dict(base, X_eval=X[:2].copy())))
    return out


def run_options(acc, which, subj, pname, X, lab, mode, cand, bs, seed0):
    y = SP.make_y(lab, subj.task)
    cand_arg, cand_set = PR.materialise(cand, X)
    cset = PR.reference_candidates(lab, cand_arg, cand_set)
    n_cols = len(X) if not mode.startswith("rows") else len(cand_arg)
    nsel = subj.n_selectable(len(cset))
    for oname, kw in option_variants(subj, X, y, mode):
        key = (subj.name, pname, lab, mode, None if cand is None else repr(cand), bs, oname)
        acc.case(key)
        preds = dict(preds_of(subj, X, lab, mode, cset, bs), option=oname)
        wit = {"subject": subj.name, "pool": pname, "X": X.tolist(), "labels": list(lab), "cand_mode": mode, "option": oname,
               "candidates": None if cand is None else (cand if not isinstance(cand, tuple) else list(cand)), "batch_size": bs}
        rep = {"subject": subj.name, "pool": pname, "labels": list(lab), "mode": mode, "option": oname,
               "cand": None if cand is None else (list(cand) if isinstance(cand, tuple) else cand), "bs": bs, "tape": [], "how": "option", "seed": seed0,
               "which": which}
        size = case_size(lab, cset, bs, []) + 3
        for how, out in (("default tape", PR.run_query(subj, X, y, cand_arg, bs, T.Tape(), "substitute", return_utilities=True, kw=dict(kw))),
                         ("real seed", PR.run_query(subj, X, y, cand_arg, bs, T.Tape(), "observe", return_utilities=True, seed=seed0, kw=dict(kw)))):
            acc.transitions += 1
            if out[0] == "timeout":
                acc.violation(subj.name, "no_result_within_horizon", str(out[1]), wit, preds, rep, size)
                continue
            if out[0] == "exc":
                if is_rejection(subj, out[1], mode, lab, bs):
                    acc.reject(is_rejection(subj, out[1], mode, lab, bs))
                elif which == "C01":
                    acc.violation(subj.name, "exception:" + type(out[1]).__name__, "%s: %s [option %s]" % (type(out[1]).__name__, str(out[1])[:300], oname),
                                  wit, dict(preds, exc=str(out[1])[:80]), rep, size)
                continue
            _, idx, utils = out
            v = PR.judge_c01(idx, cset, bs, nsel) if which == "C01" else PR.judge_c02(idx, utils, cset, bs, n_cols, subj.select)
            p2 = dict(preds, **PR.output_preds(utils, cset, n_cols)) if v else preds
            for kind, detail in v:
                acc.violation(subj.name, kind, "%s [option %s, %s]" % (detail, oname, how), wit, p2, rep, size)
            acc.traces_validated += 1
            acc.outcome((key, tuple(int(x) for x in np.asarray(idx).ravel()) if np.asarray(idx).dtype.kind in "iu" else repr(idx)))


def run_shard(spec, which):
    T.install()
    t0 = time.process_time()
    acc = Acc()
    b = tier_bounds(spec["tier"])
    subj = SP.BY_NAME[spec["subject"]]
    pname = spec["pool"]
    X = SP.pool(pname)
    labs = SP.labelings(len(X), tuple(b["label_values"]))
    i = -1
    for lab in labs:
        for mode, cand in PR.candidate_modes(subj, lab, spec["tier"], X.shape[1]):
            _, cs = PR.materialise(cand, X)
            ncand = len(PR.reference_candidates(lab, None if cand is None else 1, cs))
            for bs in range(1, min(ncand + 1, b["max_batch"]) + 1):
                i += 1
                if i % spec["of"] != spec["part"]:
                    continue
                run_case(acc, which, subj, pname, X, lab, mode, cand, bs, b["deviation_bound"], b["max_tapes_per_case"],
                         b["conformance_seeds"], spec["seed"] * 100, extra=(i % b["extra_every"] == 0))
                if i % b["extra_every"] == 0:
                    run_options(acc, which, subj, pname, X, lab, mode, cand, bs, spec["seed"] * 100)
                if i % 211 == 0:
                    acc.sample({"subject": subj.name, "pool": pname, "labels": list(lab), "cand_mode": mode,
                                "candidates": None if cand is None else repr(cand), "batch_size": bs}, limit=1)
    acc.states = len(acc.nontrivial)
    acc.count("cpu_s:" + subj.name, int(time.process_time() - t0))
    return acc


def replay(spec):
    T.install()
    acc = Acc()
    subj = SP.BY_NAME[spec["subject"]]
    X = SP.pool(spec["pool"])
    lab = tuple(None if v is None else int(v) for v in spec["labels"])
    cand = spec["cand"]
    if isinstance(cand, list) and len(cand) == 3 and cand[0] == "rows":
        cand = ("rows", [int(i) for i in cand[1]], bool(cand[2]))
    elif cand is not None:
        cand = [int(i) for i in cand]
    b = tier_bounds("thorough")
    if spec.get("option"):
        run_options(acc, spec["which"], subj, spec["pool"], X, lab, spec["mode"], cand, int(spec["bs"]), int(spec.get("seed", 0)))
        return [(s, k) for (s, k, _p) in acc.groups]
    run_case(acc, spec["which"], subj, spec["pool"], X, lab, spec["mode"], cand, int(spec["bs"]), 2, 400, 1, int(spec.get("seed", 0)))
    return [(s, k) for (s, k, _p) in acc.groups]


def bounds(tier):
    b = tier_bounds(tier)
    b = dict(b)
    b["subjects"] = [s.name for s in SP.SUBJECTS if s.quick or tier != "quick"]
    b["note"] = "subjects with cost >= 3 use pools_expensive; conformance / return_utilities=False runs on every extra_every-th case"
    b["candidate_modes"] = "None; index subsets of the unlabeled samples (quick: all / first / last / all-but-first / first+last; thorough: every " \
        "non-empty subset of up to three unlabeled samples, otherwise all / every single one / every pair / every all-but-one); for strategies that score samples independently also index sets containing labeled samples; feature rows of the " \
        "unlabeled samples, and the same plus one foreign row"
    b["batch_sizes"] = "1..min(n_candidates+1, max_batch)"
    b["query_options"] = "on every extra_every-th case the query is repeated with each non-default optional argument the " \
        "strategy offers: sample_weight, utility_weight, an already fitted model with fit_clf/fit_reg/fit_ensemble=False, update=True, X_eval " \
        "(default tape and one real seed each)"
    b["pool_data"] = {p: SP.POOLS[p] for p in b["pools"]}
    return b
