"""C03 - stream query is a pure simulation.

BFS over the reachable states of every stream strategy and budget manager
(transition = update(chunk, query(chunk))). In every reachable state and for
every query of the alphabet: (1) the query repeated returns identical
indices and utilities, (2) no attribute that existed before the query has a
different fingerprint afterwards (nested budget manager, windows, counters,
thresholds, generator state/position), (3) behavioural: all continuations of
depth <= 2 produce identical outputs and end states from the pristine state
and from the state on which every query of the alphabet was called twice,
(3b) the object that is queried before each update ends in the same state as
an object that only receives the updates (with the indices the queries
returned), (4) get_params(deep=True) is unchanged by query.
"""
import copy
import itertools
import warnings

import numpy as np

from checks import stream_graph as G
from mc import fingerprint as F
from mc import tape as T
from mc.acc import Acc
from subjects import stream as SS

PROPERTY = "C03"
META = {
    "rule": "state = full fingerprint of the real object reached by a chunked query/update history; in each state every query of the "
    "alphabet (chunks of size 1..2) is judged; non-trivial = every reachable state; distinct = distinct fingerprint",
    "assumptions": ["alphabets / horizons as in bounds", "model generator (StreamRNG): purity of the generator is judged on its stream "
                    "position; real generator (integer seed): on the complete MT19937 state",
                    "attributes created lazily by the first query are judged by the behavioural clause (3) only"],
}
UV = SS.UTIL_VALUES_C03


def bounds(tier):
    q = tier == "quick"
    return {"subjects": [s.name for s in SS.ALL], "budgets": [0.5] if q else [0.25, 0.5], "max_chunk": 2, "query_chunks": 2,
            "horizon": 3 if q else 5, "horizon_managers": 4 if q else 6, "max_states": 1500 if q else 20000,
            "continuation_depth": 2, "rng_modes": ["model", "real", "global (random_state=None, linear histories of length 3/4)"], "real_seeds": 1 if q else 2}


def shards(tier, seed):
    b = bounds(tier)
    out = []
    for s in SS.ALL:
        for bud in b["budgets"]:
            out.append({"tier": tier, "seed": seed, "subject": s.name, "budget": bud, "rng": "model"})
            for k in range(b["real_seeds"]):
                out.append({"tier": tier, "seed": seed, "subject": s.name, "budget": bud, "rng": "real", "rseed": seed * 10 + k})
        out.append({"tier": tier, "seed": seed, "subject": s.name, "budget": 0.5, "rng": "global"})
    return out


def shard_cost(spec):
    s = SS.BY_NAME[spec["subject"]]
    return (1 if s.kind == "manager" else 5)


def _same_out(a, b):
    ia, ua = a
    ib, ub = b
    return list(np.asarray(ia).ravel()) == list(np.asarray(ib).ravel()) and np.array_equal(
        np.asarray(ua, dtype=float), np.asarray(ub, dtype=float), equal_nan=True)


def _afp(o):
    old = F.MODE["rng"]
    F.MODE["rng"] = "pos"
    try:
        return F.attr_fps(o), F.params_fp(o)
    finally:
        F.MODE["rng"] = old


def _pfp(o):
    old = F.MODE["rng"]
    F.MODE["rng"] = "pos"
    try:
        return F.fp(o)
    finally:
        F.MODE["rng"] = old


def judge_state(subj, o, queries, conts):
    """returns list of (kind, detail, extra_preds)"""
    out = []
    a0, p0 = _afp(o)
    dirty = copy.deepcopy(o)
    for q in queries:
        t = copy.deepcopy(o)
        try:
            with T.ties(T.Tape()):
                r1 = G.do_query(subj, t, q, UV)
                r2 = G.do_query(subj, t, q, UV)
                G.do_query(subj, dirty, q, UV)
                G.do_query(subj, dirty, q, UV)
        except Exception as e:
            out.append(("exception_in_query:" + type(e).__name__, "query %s: %s" % ("".join(q), str(e)[:150]), {}))
            continue
        if not _same_out(r1, r2):
            out.append(("repeated_query_differs", "query %s: first %s %s, second %s %s" % (
                "".join(q), list(r1[0]), np.round(np.asarray(r1[1], dtype=float), 4).tolist(), list(r2[0]),
                np.round(np.asarray(r2[1], dtype=float), 4).tolist()), {}))
        a1, p1 = _afp(t)
        changed = sorted(k for k in a0 if a0[k] != a1.get(k))
        if changed:
            out.append(("state_changed_by_query", "query %s changed %s" % ("".join(q), changed[:5]), {"attrs": ",".join(changed[:3])}))
        if p0 != p1:
            out.append(("params_changed_by_query", "query %s changed get_params(deep=True)" % "".join(q), {}))
    # behavioural continuation check: pristine vs dirty
    for C in conts:
        x, y, z = copy.deepcopy(o), copy.deepcopy(dirty), copy.deepcopy(o)
        ok = True
        zok = True
        for step in C:
            try:
                with T.ties(T.Tape()):
                    rx = G.do_query(subj, x, step, UV)
                    G.do_update(subj, x, step, rx[0], rx[1], UV)
                sx = ("ok", rx)
            except Exception as e:
                sx = ("exc", type(e).__name__)
            # z never sees a query: it is only told (by update) what x's queries decided
            if zok and sx[0] == "ok":
                try:
                    with T.ties(T.Tape()):
                        G.do_update(subj, z, step, rx[0], rx[1], UV)
                except Exception as e:
                    zok = False
                    out.append(("update_needs_a_preceding_query", "continuation %s: update(%s) without a preceding query raises %s: %s" % (
                        ["".join(c) for c in C], "".join(step), type(e).__name__, str(e)[:120]), {"exc": type(e).__name__}))
            else:
                zok = False
            try:
                with T.ties(T.Tape()):
                    ry = G.do_query(subj, y, step, UV)
                    G.do_update(subj, y, step, ry[0], ry[1], UV)
                sy = ("ok", ry)
            except Exception as e:
                sy = ("exc", type(e).__name__)
            if sx[0] != sy[0] or (sx[0] == "ok" and not _same_out(sx[1], sy[1])) or (sx[0] == "exc" and sx[1] != sy[1]):
                out.append(("extra_queries_change_future", "continuation %s: step %s gives %s without and %s with earlier extra queries" % (
                    ["".join(c) for c in C], "".join(step), _short(sx), _short(sy)), {}))
                ok = False
                break
            if sx[0] == "exc":
                ok = False
                break
        if ok and zok:
            # the queries of x were pure simulations, so x must be in the state that the updates alone produce
            ax, _ = _afp(x)
            az, _ = _afp(z)
            d = sorted(k for k in set(ax) & set(az) if ax[k] != az[k])
            if d:
                out.append(("queries_leave_a_trace_in_the_updated_state", "continuation %s: the object that was queried before each update differs from the "
                            "object that only received the updates in %s" % (["".join(c) for c in C], d[:5]), {"attrs": ",".join(d[:3])}))
        if ok and _pfp(x) != _pfp(y):
            ax, _ = _afp(x)
            ay, _ = _afp(y)
            d = sorted(k for k in set(ax) | set(ay) if ax.get(k) != ay.get(k))
            out.append(("extra_queries_change_state", "continuation %s ends in different states: %s" % (["".join(c) for c in C], d[:5]),
                        {"attrs": ",".join(d[:3])}))
    return out


def _short(s):
    if s[0] == "exc":
        return "exception %s" % s[1]
    return "%s %s" % (list(s[1][0]), np.round(np.asarray(s[1][1], dtype=float), 4).tolist())


def check_subject(acc, subj, budget, rng_mode, b, rseed):
    horizon = b["horizon_managers"] if subj.kind == "manager" else b["horizon"]
    cfg = {"subject": subj.name, "budget": budget, "rng": rng_mode, "seed": rseed}
    queries = G.chunks_of(subj, b["query_chunks"], with_empty=True)
    singles = G.chunks_of(subj, 1)
    conts = [(c,) for c in singles] + [(c, d) for c in singles for d in singles]
    if subj.kind == "strategy":  # keep the continuation menu small for the slower subjects: all singles, pairs starting with each symbol once
        conts = [(c,) for c in singles] + [(singles[i], singles[(i + j) % len(singles)]) for i in range(len(singles)) for j in (0, 1)]

    def on_state(o, hist, n):
        acc.case((subj.name, budget, rng_mode, rseed, F.fp(o)))
        v = judge_state(subj, o, queries, conts)
        acc.transitions += 2 * len(queries) + sum(2 * len(c) for c in conts)
        acc.traces_validated += len(conts)
        for kind, detail, extra in v:
            acc.violation(subj.name, kind, detail + " [after history %s]" % [c for c, _ in hist],
                          dict(cfg, history=[[c, list(t)] for c, t in hist]), extra, dict(cfg, history=[[c, list(t)] for c, t in hist]),
                          size=len(hist) * 10)
        acc.outcome((subj.name, F.fp(o)))
        if len(hist) == 2 and len(acc.samples) < 1:
            acc.sample({"config": cfg, "state_reached_by (chunk, tape answers)": [[c, list(t)] for c, t in hist],
                        "judged_in_this_state": {"queries_called_twice": ["".join(q) for q in queries], "continuations": [["".join(c) for c in C] for C in conts[:6]]}})

    with warnings.catch_warnings():
        warnings.simplefilter("ignore")
        r = G.bfs(subj, budget, rng_mode, b["max_chunk"], horizon, b["max_states"], UV, on_state, None, seed=rseed, max_tapes=200)
    acc.states += r["states"]
    acc.transitions += r["transitions"]
    if r["capped"]:
        acc.cap("cap hit for %s" % cfg)
    acc.sample({"config": cfg, "states": r["states"], "queries_judged_per_state": len(queries), "continuations_per_state": len(conts)}, limit=1)


def check_global(acc, subj, budget, tier):
    """random_state=None: the strategy draws from numpy's process-global generator. Objects holding the global singleton cannot be
    deep-copied faithfully, so histories are replayed linearly: all streams of 1-instance chunks up to length 3 (4 in thorough); before
    every update every query of the alphabet is called twice and must leave the global generator state and its own result unchanged."""
    syms = G.alphabet_of(subj)
    L = 3 if tier == "quick" else 4
    queries = G.chunks_of(subj, 2)
    for stream in itertools.product(syms, repeat=L):
        np.random.seed(4711)
        with warnings.catch_warnings():
            warnings.simplefilter("ignore")
            try:
                obj = subj.make(budget, None)
            except Exception:
                return
            for pos, sym in enumerate(stream):
                key = (subj.name, "global", stream[:pos + 1])
                if not acc.case(key):
                    pass
                for q in queries:
                    st0 = np.random.get_state()
                    try:
                        r1 = G.do_query(subj, obj, q, UV)
                        st1 = np.random.get_state()
                        r2 = G.do_query(subj, obj, q, UV)
                    except Exception as e:
                        break
                    acc.transitions += 2
                    wit = {"subject": subj.name, "random_state": None, "budget": budget, "stream_before": "".join(stream[:pos]), "query": "".join(q)}
                    rep = {"subject": subj.name, "budget": budget, "rng": "global", "history": [], "stream": "".join(stream[:pos]), "query": "".join(q)}
                    same_state = st0[0] == st1[0] and np.array_equal(st0[1], st1[1]) and st0[2:] == st1[2:]
                    if not same_state:
                        acc.violation(subj.name, "query_advances_global_generator", "after updates %s, query %s changed np.random's state (position %d -> %d)" % (
                            "".join(stream[:pos]), "".join(q), st0[2], st1[2]), wit, {}, rep, pos)
                    if not _same_out(r1, r2):
                        acc.violation(subj.name, "repeated_query_differs", "random_state=None, after updates %s: query %s twice gives %s then %s" % (
                            "".join(stream[:pos]), "".join(q), list(r1[0]), list(r2[0])), wit, {}, rep, pos)
                acc.traces_validated += 1
                try:
                    idx, ut = G.do_query(subj, obj, (sym,), UV)
                    G.do_update(subj, obj, (sym,), idx, ut, UV)
                    acc.transitions += 1
                except Exception:
                    break
    acc.states += len(acc.nontrivial)
    acc.sample({"config": {"subject": subj.name, "random_state": None}, "streams": "all 1-instance streams of length %d" % L}, limit=1)


def run_shard(spec):
    T.install()
    acc = Acc()
    if spec["rng"] == "global":
        check_global(acc, SS.BY_NAME[spec["subject"]], spec["budget"], spec["tier"])
        return acc
    check_subject(acc, SS.BY_NAME[spec["subject"]], spec["budget"], spec["rng"], bounds(spec["tier"]), spec.get("rseed", 0))
    return acc


def replay(spec):
    T.install()
    subj = SS.BY_NAME[spec["subject"]]
    if spec.get("rng") == "global":
        acc = Acc()
        check_global(acc, subj, float(spec["budget"]), "quick")
        return [(s, k) for (s, k, _p) in acc.groups]
    b = bounds("quick")
    with warnings.catch_warnings():
        warnings.simplefilter("ignore")
        hist = [(tuple(c), tuple(int(x) for x in t)) for c, t in spec["history"]]
        obj, _ = G.replay_history(subj, float(spec["budget"]), spec["rng"], hist, UV, seed=int(spec.get("seed", 0)))
        queries = G.chunks_of(subj, b["query_chunks"], with_empty=True)
        singles = G.chunks_of(subj, 1)
        conts = [(c,) for c in singles] + [(c, d) for c in singles for d in singles]
        if subj.kind == "strategy":
            conts = [(c,) for c in singles] + [(singles[i], singles[(i + j) % len(singles)]) for i in range(len(singles)) for j in (0, 1)]
        v = judge_state(subj, obj, queries, conts)
    return [(subj.name, k) for k, _d, _e in v]
