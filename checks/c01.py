"""C01 - pool query returns a valid batch (size, distinct, only candidates)."""
from checks import pool_grid as G
from subjects import pool as SP

PROPERTY = "C01"
META = {
    "rule": "one case = (subject variant, pool, labeling, candidate mode+set, batch_size); all tie/choice tapes up to the deviation "
    "bound are executed inside the case; cases with zero candidates are not generated; distinct = distinct case tuple",
    "assumptions": [
        "pools of 4 (quick) / 5 (thorough) points, two classes; see bounds",
        "rand_argmax/rand_argmin are replaced by their specification (any tied optimum, chosen by the tape): discharged by C18",
        "RandomState.choice(replace=False) is replaced by 'any admissible sample' (tape); other draws use the seeded generator",
        "numpy's global generator is pinned to a fixed seed before every execution",
    ],
}


def shards(tier, seed):
    miss = SP.check_complete()
    if miss:
        raise RuntimeError("pool strategies without a subject descriptor: %s" % miss)
    return G.make_shards(tier, seed)


def shard_cost(spec):
    return SP.BY_NAME[spec["subject"]].cost


def run_shard(spec):
    return G.run_shard(spec, "C01")


def replay(spec):
    return G.replay(spec)


bounds = G.bounds
