"""C15 - regressor predictions are coherent with their predictive distribution.

All target vectors over {missing, 0, 1, 3} on a 4-point 1-D pool (+ weights),
all priors of the catalogue, three query points (inside, at a training
point, far away). Oracle: predict == mean/std/entropy of
predict_target_distribution, std finite and >= 0 under a proper prior or with
>= 2 labels (wrappers), sample_y shape and reproducibility, documented
fall-backs of the wrappers.
"""
import itertools
import warnings

import numpy as np

from mc.acc import Acc
from subjects import models as M

PROPERTY = "C15"
NAN = float("nan")
META = {
    "rule": "one case = (regressor variant, target vector, weights); distinct = distinct tuple; every case is judged at 3 query points; "
    "trivial = NadarayaWatsonRegressor without any label (outside its quantifier)",
    "assumptions": ["1-D pool [[0],[1],[2],[4]], targets from {0,1,3}, query points [0.5],[4.0],[60.0]",
                    "'proper prior' = kappa_0 > 0, nu_0 > 2, sigma_sq_0 > 0 (finite predictive variance of the Student-t posterior)"],
}
X = np.array([[0.0], [1.0], [2.0], [4.0]])
Q = np.array([[0.5], [4.0], [60.0]])
WEIGHTS = {"none": None, "1212": [1.0, 2.0, 1.0, 2.0], "0011": [0.0, 0.0, 1.0, 1.0], "half": [0.5, 0.5, 0.5, 0.5]}


def bounds(tier):
    return {"regressors": [r.name for r in M.REGRESSORS], "targets": "all of {missing,0,1,3}^4, and the same plus a common offset of 1.7e9", "weights": list(WEIGHTS) if tier != "quick" else ["none", "1212", "0011"],
            "query_points": Q.tolist(), "n_samples": [1, 3], "sample_seeds": [0, 1]}


def shards(tier, seed):
    return [{"tier": tier, "reg": r.name, "wname": w} for r in M.REGRESSORS for w in bounds(tier)["weights"]]


OFFSETS = {"0": 0.0, "1.7e9": 1.7e9}


def run_case(acc, subj, lab, wname, offset="0"):
    y = np.array([NAN if v is None else float(v) + OFFSETS[offset] for v in lab])
    w = WEIGHTS[wname]
    n_lab = int(np.sum(~np.isnan(y)))
    key = (subj.name, lab, wname, offset)
    trivial = subj.needs_label and n_lab == 0
    acc.case(key, trivial=trivial)
    if trivial:
        return
    wit = {"regressor": subj.name, "X": X.tolist(), "y": [None if v is None else v for v in lab], "sample_weight": w, "query_points": Q.tolist()}
    rep = {"reg": subj.name, "lab": [None if v is None else float(v) for v in lab], "wname": wname, "offset": offset}
    size = n_lab * 10 + (0 if w is None else 3)
    preds = {"n_labeled": n_lab, "weights": wname, "offset": offset}

    def viol(kind, detail, extra=None):
        acc.violation(subj.name, kind, detail, wit, dict(preds, **(extra or {})), rep, size)

    reg = subj.make(random_state=0)
    fit_warn = []
    try:
        with warnings.catch_warnings(record=True) as W:
            warnings.simplefilter("always")
            reg.fit(X, y) if w is None else reg.fit(X, y, sample_weight=np.array(w))
            fit_warn = [str(x.message) for x in W]
        acc.transitions += 1
    except ValueError as e:
        if w is not None and "must not be all zero" in str(e) and float(np.sum(np.array(w)[~np.isnan(y)])) == 0.0:
            acc.reject("ValueError: all labeled sample weights are zero (documented)")
            return
        viol("exception_in_fit:ValueError", str(e)[:200])
        return
    except TypeError as e:
        if w is not None and "unexpected keyword argument 'sample_weight'" in str(e):
            acc.reject("TypeError: wrapped estimator's fit has no sample_weight parameter (signature is mirrored)")
            return
        viol("exception_in_fit:TypeError", str(e)[:200])
        return
    except Exception as e:
        viol("exception_in_fit:" + type(e).__name__, str(e)[:200])
        return
    could_not_fit = any("could not be fitted" in m for m in fit_warn)
    yl = y[~np.isnan(y)]
    preds["could_not_fit"] = could_not_fit
    preds["zero_label_std"] = bool(len(yl) >= 2 and np.std(yl) == 0)
    # ---- predict
    try:
        with warnings.catch_warnings():
            warnings.simplefilter("ignore")
            if subj.probabilistic:
                mean, std, ent = reg.predict(Q, return_std=True, return_entropy=True)
                mean2 = reg.predict(Q)
                dist = reg.predict_target_distribution(Q)
                dm, ds, de = np.asarray(dist.mean(), dtype=float), np.asarray(dist.std(), dtype=float), np.asarray(dist.entropy(), dtype=float)
            else:
                mean = reg.predict(Q)
                mean2, std, ent = mean, None, None
        acc.transitions += 3
    except Exception as e:
        kind = "exception_in_predict:" + type(e).__name__
        viol(kind, str(e)[:200], {"could_not_fit": could_not_fit})
        return
    acc.traces_validated += 1
    mean = np.asarray(mean, dtype=float)
    if mean.shape != (len(Q),):
        viol("predict_shape", "%s" % (mean.shape,))
        return
    if subj.probabilistic:
        std, ent = np.asarray(std, dtype=float), np.asarray(ent, dtype=float)
        for name, a, b in (("mean", mean, dm), ("std", std, ds), ("entropy", ent, de), ("mean(return_std=False)", np.asarray(mean2, dtype=float), dm)):
            if a.shape != b.shape or not np.allclose(a, b, rtol=1e-12, atol=1e-12, equal_nan=True):
                viol("predict_differs_from_distribution", "%s: predict gives %s, distribution gives %s" % (name, a.tolist(), b.tolist()))
        # improper prior (NadarayaWatson, NIC with kappa_0 = nu_0 = 0): the t-distribution has as many degrees of freedom as there is kernel
        # mass, so its standard deviation may legitimately be infinite / undefined for df <= 2 - but with at least two labeled samples of
        # positive weight its location and scale are well defined at query points with kernel mass, and so is the std where df > 2
        n_eff = int(np.sum((~np.isnan(y)) & ((np.array(w) if w is not None else np.ones(len(y))) > 0)))
        if subj.kernel and not subj.proper_prior and n_eff >= 2:
            try:
                df_, loc_, scale_ = (np.asarray(dist.kwds[k], dtype=float) for k in ("df", "loc", "scale"))
                for qi in range(2):  # the two query points inside the data range (kernel mass > 0)
                    if not (np.isfinite(loc_[qi]) and np.isfinite(scale_[qi]) and scale_[qi] >= 0):
                        viol("distribution_parameters_not_finite", "query point %s: loc=%r scale=%r df=%r with %d labeled samples of positive weight" % (
                            Q[qi].tolist(), loc_[qi], scale_[qi], df_[qi], n_eff), {"kernel": True})
                        break
                    if df_[qi] > 2 and not (np.isfinite(std[qi]) and std[qi] >= 0):
                        viol("std_not_finite_nonnegative", "query point %s: std=%r with df=%r > 2" % (Q[qi].tolist(), std[qi], df_[qi]),
                             {"far_query": False, "kernel": True})
                        break
            except (KeyError, AttributeError):
                pass
        proper = (subj.proper_prior or (subj.wrapper and n_lab >= 2))
        if proper:
            for qi in range(len(Q)):
                if not (np.isfinite(std[qi]) and std[qi] >= 0):
                    viol("std_not_finite_nonnegative", "query point %s: std=%r mean=%r" % (Q[qi].tolist(), std[qi], mean[qi]),
                         {"far_query": bool(qi == 2), "kernel": subj.kernel})
                    break
    # ---- the representation of the query points is irrelevant: integer-typed query points give the predictions of the same points as floats
    Qi = np.array([[1], [3], [60]], dtype=int)
    try:
        with warnings.catch_warnings():
            warnings.simplefilter("ignore")
            if subj.probabilistic:
                ri = reg.predict(Qi, return_std=True)
                rf = reg.predict(Qi.astype(float), return_std=True)
            else:
                ri, rf = (reg.predict(Qi),), (reg.predict(Qi.astype(float)),)
        acc.transitions += 2
        for nm, a, b in zip(("mean", "std"), ri, rf):
            a, b = np.asarray(a, dtype=float), np.asarray(b, dtype=float)
            if a.shape != b.shape or not np.allclose(a, b, rtol=1e-12, atol=1e-12, equal_nan=True):
                viol("prediction_depends_on_query_dtype", "%s for integer query points %s, for the same points as floats %s" % (nm, a.tolist(), b.tolist()),
                     {"could_not_fit": could_not_fit})
                break
    except Exception as e:
        viol("exception_in_predict:" + type(e).__name__, "integer query points: " + str(e)[:200], {"could_not_fit": could_not_fit})
    # ---- documented fall-backs of the wrappers
    if subj.wrapper:
        if n_lab == 0:
            if not np.allclose(mean, 0.0):
                viol("fallback_mean_not_zero", "no labeled sample but predict=%s" % mean.tolist())
        elif could_not_fit:
            lm = float(np.nanmean(y))
            if not np.allclose(mean, lm, rtol=1e-12, atol=1e-9):
                viol("fallback_mean_not_label_mean", "estimator could not be fitted, label mean %r but predict=%s" % (lm, mean.tolist()))
    # ---- sample_y
    # the predictive distribution is only defined under a proper prior or with at least two (effective) labeled samples
    Qs = Q if subj.proper_prior or subj.wrapper else (Q[:2] if n_lab >= 2 else None)
    if subj.probabilistic and Qs is not None:
        for k in (1, 3):
            try:
                with warnings.catch_warnings():
                    warnings.simplefilter("ignore")
                    seed = 7 if k == 1 else 0  # 0 is a legal seed as well (and a falsy one)
                    s1 = np.asarray(reg.sample_y(Qs, n_samples=k, random_state=seed))
                    s2 = np.asarray(reg.sample_y(Qs, n_samples=k, random_state=seed))
                    s3 = np.asarray(reg.sample_y(Qs, n_samples=k, random_state=np.random.RandomState(seed)))
                acc.transitions += 3
            except Exception as e:
                viol("exception_in_sample_y:" + type(e).__name__, str(e)[:200], {"could_not_fit": could_not_fit})
                break
            if s1.shape != (len(Qs), k):
                viol("sample_y_shape", "shape %s expected %s" % (s1.shape, (len(Qs), k)))
                break
            if not (np.array_equal(s1, s2, equal_nan=True) and np.array_equal(s1, s3, equal_nan=True)):
                viol("sample_y_not_reproducible", "same random_state, different samples: %s vs %s vs %s" % (s1.tolist(), s2.tolist(), s3.tolist()))
                break
    acc.outcome((key, mean.tobytes()))


def run_shard(spec):
    acc = Acc()
    subj = M.REG_BY_NAME[spec["reg"]]
    for i, lab in enumerate(itertools.product((None, 0.0, 1.0, 3.0), repeat=4)):
        run_case(acc, subj, lab, spec["wname"])
        # the same targets with a large common offset (time stamps, prices ...): cancellation must not produce NaN / negative variances
        if spec["tier"] == "thorough" or i % 2 == 0:
            run_case(acc, subj, lab, spec["wname"], offset="1.7e9")
        if i % 101 == 0:
            acc.sample({"regressor": subj.name, "y": [None if v is None else v for v in lab], "weights": spec["wname"]}, limit=1)
    acc.states = len(acc.nontrivial)
    return acc


def replay(spec):
    acc = Acc()
    lab = tuple(None if v is None else float(v) for v in spec["lab"])
    run_case(acc, M.REG_BY_NAME[spec["reg"]], lab, spec["wname"], spec.get("offset", "0"))
    return [(s, k) for (s, k, _p) in acc.groups]
