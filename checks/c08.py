"""C08 - a sample's utility does not depend on how candidates are addressed.

For every pool strategy, pool and labeling: candidates=None vs the indices of
the unlabeled samples vs their feature rows must give the same utilities at
the same samples (and the same selection when the best candidate is unique).
For the strategies that score samples independently: every proper candidate
subset (restriction) and every row permutation of (X, y) (equivariance; only
when the utilities are deterministic, decided dynamically by a two-seed
comparison).
"""
import itertools
import warnings

import numpy as np

from mc import poolrun as PR
from mc import tape as T
from mc.acc import Acc
from checks.pool_grid import NO_ROW_CANDIDATES
from subjects import pool as SP

PROPERTY = "C08"
META = {
    "rule": "one case = (strategy variant, pool, labeling, relation instance) where a relation instance is a representation pair, a "
    "candidate subset or a row permutation; each case is a paired execution under the default tape; trivial = the "
    "reference (candidates=None) query is rejected or a feature-row query raises the documented MappingError; distinct = tuple",
    "assumptions": ["pools of 4 points, 2 classes; utilities compared with rtol 1e-9 (same code path) / 1e-6 (permuted rows)",
                    "the set of sample-wise strategies is the catalogue's reading of the code (DESIGN 5/C08)",
                    "permutation equivariance is only judged when two different seeds give identical first-step utilities"],
}
RT, AT = 1e-9, 1e-12


def bounds(tier):
    q = tier == "quick"
    return {"subjects": [s.name for s in SP.SUBJECTS if s.quick or not q], "samplewise": [s.name for s in SP.SUBJECTS if s.samplewise],
            "pools": ["line4", "dup4"] if q else ["line4", "dup4", "grid4", "const4"], "pools_expensive": ["line4"] if q else ["line4", "dup4"],
            "labelings": "all of {missing,0,1}^4", "subsets": "every non-empty proper subset of the unlabeled indices",
            "permutations": "all 24 (expensive subjects in quick: 5 fixed ones)", "batch_sizes": [1, 2]}


def shards(tier, seed):
    b = bounds(tier)
    out = []
    for s in SP.SUBJECTS:
        if tier == "quick" and not s.quick:
            continue
        for p in (b["pools"] if s.cost < 3 else b["pools_expensive"]):
            out.append({"tier": tier, "subject": s.name, "pool": p})
    return out


def shard_cost(spec):
    return SP.BY_NAME[spec["subject"]].cost


def _q(subj, X, y, cand, bs, seed=0):
    out = PR.run_query(subj, X, y, cand, bs, T.Tape(), "substitute", seed=seed)
    if out[0] == "ok":
        return ("ok", [int(i) for i in np.asarray(out[1]).ravel()], np.asarray(out[2], dtype=float))
    return out


def _close(a, b, rt=RT):
    return a.shape == b.shape and np.allclose(a, b, rtol=rt, atol=1e-9 if rt > RT else AT, equal_nan=True)


def _unique_best(row):
    v = row[~np.isnan(row)]
    if len(v) == 0:
        return None
    if len(v) == 1:
        return int(np.flatnonzero(~np.isnan(row))[0])
    s = np.sort(v)
    if s[-1] - s[-2] > 1e-6 and np.isfinite(s[-1]):
        return int(np.nanargmax(row))
    return None


def run_labeling(acc, subj, pname, X, lab, tier):
    y = SP.make_y(lab, subj.task)
    u = PR.unlabeled(lab)
    if not u:
        return
    base_wit = {"subject": subj.name, "pool": pname, "X": X.tolist(), "labels": list(lab)}

    def rep(rel, **kw):
        return dict({"subject": subj.name, "pool": pname, "labels": list(lab), "rel": rel}, **kw)

    size0 = sum(v is not None for v in lab)
    for bs in (1, 2):
        ref = _q(subj, X, y, None, bs)
        acc.transitions += 1
        if ref[0] != "ok":
            acc.case((subj.name, pname, lab, "ref", bs), trivial=True)
            continue
        # ---- representation equivalence -------------------------------------------
        for mode, cand in (("idx", np.array(u)), ("rows", X[u])):
            key = (subj.name, pname, lab, "repr", mode, bs)
            o = _q(subj, X, y, cand, bs)
            acc.transitions += 1
            if o[0] == "exc" and type(o[1]).__name__ == "MappingError" and mode == "rows" and subj.cls in NO_ROW_CANDIDATES:
                acc.case(key, trivial=True)
                acc.reject("MappingError for feature-row candidates")
                continue
            acc.case(key)
            acc.traces_validated += 1
            wit = dict(base_wit, relation="candidates=None vs %s" % ("indices of the unlabeled samples" if mode == "idx" else "their feature rows"), batch_size=bs)
            if o[0] != "ok":
                acc.violation(subj.name, "representation_changes_outcome", "candidates=None succeeds, %s raises %s: %s" % (
                    mode, type(o[1]).__name__, str(o[1])[:120]), wit, {"mode": mode, "exc": str(o[1])[:60], "cold_start": size0 == 0},
                    rep("repr", mode=mode, bs=bs), size0)
                continue
            U0 = ref[2][:, u] if mode == "rows" else ref[2]
            U1 = o[2]
            k = min(len(U0), len(U1))
            if U0.shape[1:] != U1.shape[1:] or not _close(U0[:1], U1[:1]):
                acc.violation(subj.name, "representation_changes_utilities", "first-step utilities with candidates=None %s, with %s %s" % (
                    np.round(U0[0], 6).tolist(), mode, np.round(U1[0], 6).tolist() if len(U1) else []), wit, {"mode": mode},
                    rep("repr", mode=mode, bs=bs), size0)
                continue
            b0 = _unique_best(U0[0])
            if b0 is not None and len(ref[1]) and len(o[1]):
                sel0 = ref[1][0] if mode == "idx" else u.index(ref[1][0]) if ref[1][0] in u else -1
                if o[1][0] != sel0:
                    acc.violation(subj.name, "representation_changes_selection", "unique best candidate: None selects %s, %s selects %s" % (
                        ref[1], mode, o[1]), wit, {"mode": mode}, rep("repr", mode=mode, bs=bs), size0)
            acc.outcome((key, tuple(o[1])))
        if bs != 1 or not subj.samplewise:
            continue
        U_ref = ref[2][0]
        # ---- restriction -------------------------------------------------------------
        for r in range(1, len(u)):
            for sub in itertools.combinations(u, r):
                key = (subj.name, pname, lab, "restrict", sub)
                o = _q(subj, X, y, np.array(sub), 1)
                acc.transitions += 1
                acc.case(key)
                acc.traces_validated += 1
                wit = dict(base_wit, relation="restriction to candidates %s" % (list(sub),))
                if o[0] != "ok":
                    acc.violation(subj.name, "restriction_changes_outcome", "candidates=%s raises %s: %s" % (list(sub), type(o[1]).__name__, str(o[1])[:120]),
                                  wit, {"n_sub": len(sub)}, rep("restrict", sub=list(sub)), size0 + len(sub))
                    continue
                a, b_ = U_ref[list(sub)], o[2][0][list(sub)]
                if not _close(a, b_):
                    acc.violation(subj.name, "restriction_changes_utilities", "utilities of %s: with all candidates %s, restricted %s" % (
                        list(sub), np.round(a, 6).tolist(), np.round(b_, 6).tolist()), wit, {"n_sub": len(sub)}, rep("restrict", sub=list(sub)),
                        size0 + len(sub))
        # ---- restriction under the real generator (integer seed): the random stream a strategy draws from (bootstrap samples, tie breaks) is
        # derived from the seed and the data, not from the number of candidates that happen to be passed
        ref_real = PR.run_query(subj, X, y, None, 1, T.Tape(), "observe", seed=0, own_rng=False)
        acc.transitions += 1
        if ref_real[0] == "ok" and len(u) > 1:
            Ur = np.asarray(ref_real[2], dtype=float)[0]
            for sub in [(i,) for i in u] + ([tuple(j for j in u if j != i) for i in u] if len(u) > 2 else []):
                key = (subj.name, pname, lab, "restrict-real", sub)
                o = PR.run_query(subj, X, y, np.array(sub), 1, T.Tape(), "observe", seed=0, own_rng=False)
                acc.transitions += 1
                acc.case(key)
                if o[0] != "ok":
                    continue
                acc.traces_validated += 1
                a, b_ = Ur[list(sub)], np.asarray(o[2], dtype=float)[0][list(sub)]
                if not _close(a, b_):
                    acc.violation(subj.name, "restriction_changes_utilities", "real generator, seed 0: utilities of %s with all candidates %s, restricted %s" % (
                        list(sub), np.round(a, 6).tolist(), np.round(b_, 6).tolist()), dict(base_wit, relation="restriction to candidates %s (real generator)" % (list(sub),)),
                        {"n_sub": len(sub), "real": True}, rep("restrict", sub=list(sub)), size0 + len(sub))
                    break
        # ---- permutation equivariance ---------------------------------------------------
        other = _q(subj, X, y, None, 1, seed=1)
        acc.transitions += 1
        if other[0] != "ok" or not _close(other[2][0], U_ref):
            acc.count("permutation_skipped_random_utilities")
            continue
        perms = list(itertools.permutations(range(len(X))))[1:]
        if tier == "quick" and subj.cost >= 3:
            perms = [perms[i] for i in (0, 5, 10, 16, 22)]
        for perm in perms:
            key = (subj.name, pname, lab, "perm", perm)
            Xp, yp = X[list(perm)], y[list(perm)]
            o = _q(subj, Xp, yp, None, 1)
            acc.transitions += 1
            acc.case(key)
            acc.traces_validated += 1
            wit = dict(base_wit, relation="rows permuted by %s" % (list(perm),))
            if o[0] != "ok":
                acc.violation(subj.name, "permutation_changes_outcome", "permuted data raises %s: %s" % (type(o[1]).__name__, str(o[1])[:120]), wit, {},
                              rep("perm", perm=list(perm)), size0)
                continue
            if not _close(o[2][0], U_ref[list(perm)], rt=1e-6):
                acc.violation(subj.name, "utilities_not_permutation_equivariant", "utilities %s; after permuting the rows by %s: %s (expected %s)" % (
                    np.round(U_ref, 6).tolist(), list(perm), np.round(o[2][0], 6).tolist(), np.round(U_ref[list(perm)], 6).tolist()), wit, {},
                    rep("perm", perm=list(perm)), size0)


def run_shard(spec):
    T.install()
    acc = Acc()
    subj = SP.BY_NAME[spec["subject"]]
    X = SP.pool(spec["pool"])
    with warnings.catch_warnings():
        warnings.simplefilter("ignore")
        for i, lab in enumerate(SP.labelings(len(X))):
            run_labeling(acc, subj, spec["pool"], X, lab, spec["tier"])
            if i % 29 == 0:
                acc.sample({"subject": subj.name, "pool": spec["pool"], "labels": list(lab), "relations": "None vs idx vs rows; subsets; permutations"}, limit=1)
    acc.states = len(acc.nontrivial)
    return acc


def replay(spec):
    T.install()
    acc = Acc()
    subj = SP.BY_NAME[spec["subject"]]
    lab = tuple(None if v is None else int(v) for v in spec["labels"])
    with warnings.catch_warnings():
        warnings.simplefilter("ignore")
        run_labeling(acc, subj, spec["pool"], SP.pool(spec["pool"]), lab, "thorough")
    return [(s, k) for (s, k, _p) in acc.groups]
