"""Shared explicit-state exploration of stream strategies / budget managers
(C03, C10, C13): BFS over all chunked query/update histories, transitions
executed on deep copies of the real object, states merged on the full
fingerprint."""
import copy
import itertools
import warnings
from collections import deque

import numpy as np

from mc import tape as T
from mc.fingerprint import fp, fp_merge
from subjects import stream as SS


def alphabet_of(subj):
    return list("lmhn") if subj.kind == "manager" else list("abcd")


def chunks_of(subj, max_chunk, with_empty=False):
    a = alphabet_of(subj)
    out = [c for k in range(1, max_chunk + 1) for c in itertools.product(a, repeat=k)]
    if with_empty and subj.kind == "manager":
        out.append(())  # the budget managers accept an empty chunk (the strategies document a minimum of one candidate)
    return out


def fresh(subj, budget, rng_mode, seed=0):
    """rng_mode: 'model' (StreamRNG owned by the explorer) | 'real' (integer seed)"""
    with T.ties(T.Tape()):
        if rng_mode == "model":
            return subj.make(budget, subj.rng(budget))
        return subj.make(budget, seed)


def do_query(subj, obj, chunk, util_values):
    return subj.query(obj, chunk, util_values)


def do_update(subj, obj, chunk, idx, ut, util_values, as_list=False):
    if as_list:
        v = subj.values(chunk, util_values)
        cands = (v.reshape(-1, 1) if subj.kind == "manager" else v).tolist()
        with warnings.catch_warnings():
            warnings.simplefilter("ignore")
            if subj.kind == "manager":
                if subj.update_utilities:
                    obj.update(cands, idx, ut)
                else:
                    obj.update(cands, idx)
            elif subj.name in SS.BASELINES:
                obj.update(cands, idx)
            else:
                obj.update(cands, idx, budget_manager_param_dict={"utilities": ut})
        return
    subj.update(obj, chunk, idx, ut, util_values)


def bfs(subj, budget, rng_mode, max_chunk, horizon, max_states, util_values, on_state=None, on_transition=None, tape_bound=99,
        max_tapes=400, seed=0):
    """Generic BFS. Callbacks:
    on_state(obj, hist, n)            for every new state (incl. the initial one)
    on_transition(pre, chunk, tape, post, result, hist, n) where result is
        ('ok', idx, ut) | ('exc', where, exception); returns False to prune
    Returns dict(states=, transitions=, capped=)."""
    ops = chunks_of(subj, max_chunk, with_empty=True)
    obj0 = fresh(subj, budget, rng_mode, seed)
    frontier = deque([(obj0, (), 0)])
    seen = {fp_merge(obj0)}
    ntrans = 0
    capped = False
    if on_state:
        on_state(obj0, (), 0)
    while frontier:
        obj, hist, n = frontier.popleft()
        for chunk in ops:
            if n + len(chunk) > horizon:
                continue

            def run(tp):
                o = copy.deepcopy(obj)
                with T.ties(tp):
                    try:
                        idx, ut = do_query(subj, o, chunk, util_values)
                    except Exception as e:
                        return o, ("exc", "query", e)
                    try:
                        do_update(subj, o, chunk, idx, ut, util_values)
                    except Exception as e:
                        return o, ("exc", "update", e, idx, ut)
                return o, ("ok", idx, ut)

            for tp, (o, res) in T.explore(run, bound=tape_bound, max_runs=max_tapes):
                ntrans += 1
                h2 = hist + (("".join(chunk), tuple(tp.choices)),)
                keep = True
                if on_transition:
                    keep = on_transition(obj, chunk, tp, o, res, h2, n) is not False
                if res[0] != "ok" or not keep or len(chunk) == 0:
                    continue  # an empty chunk is judged by the callbacks; it must not create states (it has to be a no-op)
                k = fp_merge(o)  # values + sharing structure (aliased attributes have different futures)
                if k not in seen:
                    if len(seen) >= max_states:
                        capped = True
                        continue
                    seen.add(k)
                    frontier.append((o, h2, n + len(chunk)))
                    if on_state:
                        on_state(o, h2, n + len(chunk))
            if T.explore.capped:
                capped = True
    return {"states": len(seen), "transitions": ntrans, "capped": capped}


def replay_history(subj, budget, rng_mode, history, util_values, seed=0):
    """Re-execute a history [(chunk, tape), ...] on a fresh object; returns the
    object and the list of per-step results."""
    obj = fresh(subj, budget, rng_mode, seed)
    results = []
    for chunk, tape in history:
        tp = T.Tape([int(x) for x in tape])
        with T.ties(tp):
            try:
                idx, ut = do_query(subj, obj, tuple(chunk), util_values)
                do_update(subj, obj, tuple(chunk), idx, ut, util_values)
                results.append(("ok", idx, ut))
            except Exception as e:
                results.append(("exc", e))
                break
    return obj, results
