"""C20 - wrapper strategies are transparent to the strategy they wrap.

(1) ParallelUtilityEstimationWrapper(n_jobs in {1,2,3,-1}, threading
backend) vs the wrapped strategy: same utilities and, under the same tape,
the same selection, for all labelings x candidate modes of small pools and
several sample-wise inner strategies.
(2) SubSamplingWrapper(max_candidates in {1,2,3,0.25,0.5,1.0} x
exclude_non_subsample): every subset the wrapper can draw is enumerated by
the choice tape; the finite utilities mark the sub-sample, which must have
the documented size, lie inside the candidates, carry exactly the wrapped
strategy's utilities (computed by an independent call of the inner strategy
on the same sub-sample / reduced data), -inf at the other candidates, NaN at
non-candidates, all in the caller's index space; the selection lies in the
sub-sample and attains the row maximum.
(3) SingleAnnotatorWrapper: the samples of the returned pairs appear in the
order in which the wrapped strategy ranks them (same tape).
"""
import itertools
import math
import warnings

import numpy as np

from mc import poolrun as PR
from mc import tape as T
from mc.acc import Acc
from subjects import pool as SP

PROPERTY = "C20"
NAN = float("nan")
META = {
    "rule": "one case = (wrapper configuration, inner strategy, pool, labeling, candidate mode); all choice/tie tapes of the case are run; "
    "trivial = no candidate; distinct = tuple",
    "assumptions": ["pools of 4 points; inner strategies: sample-wise ones that accept feature-row candidates", "joblib threading backend",
                    "utilities compared with rtol 1e-9"],
}
INNER = ["RandomSampling", "UncertaintySampling[entropy]", "ProbabilisticAL", "QueryByCommittee[KL_divergence]", "GreedySamplingX",
         "ContrastiveAL", "MonteCarloEER[misclassification_loss]", "ExpectedModelVarianceReduction"]
INNER_QUICK = ["UncertaintySampling[entropy]", "ProbabilisticAL", "GreedySamplingX", "ExpectedModelVarianceReduction"]


def bounds(tier):
    q = tier == "quick"
    return {"inner_strategies": INNER_QUICK if q else INNER, "n_jobs": [1, 2, 3, -1], "max_candidates": [1, 2, 3, 0.25, 0.5, 1.0],
            "exclude_non_subsample": [False, True], "pools": ["line4", "dup4"] if not q else ["line4"], "candidate_modes": ["none", "idx", "rows"],
            "labelings": "all of {missing,0,1}^4", "single_annotator_wrapper": "see C07 grid: 3 samples x 2 annotators"}


def shards(tier, seed):
    b = bounds(tier)
    out = []
    for inner in b["inner_strategies"]:
        for p in b["pools"]:
            out.append({"tier": tier, "what": "parallel", "inner": inner, "pool": p})
            for mc in b["max_candidates"]:
                out.append({"tier": tier, "what": "subsample", "inner": inner, "pool": p, "mc": mc})
    # CoreSet: a batch-aware inner strategy whose utility rows grow from step to step (all zeros at cold start, distances afterwards)
    for inner in ("UncertaintySampling[entropy]", "RandomSampling", "ProbabilisticAL", "CoreSet"):
        out.append({"tier": tier, "what": "saw", "inner": inner, "pool": "line4"})
    return out


def shard_cost(spec):
    return SP.BY_NAME[spec["inner"]].cost


def _run(qs, X, y, cand, bs, tape, kw, return_utilities=True):
    np.random.seed(PR.GLOBAL_SEED)
    with warnings.catch_warnings():
        warnings.simplefilter("ignore")
        try:
            with T.ties(tape), T.rng_override(PR.rng_factory):
                r = qs.query(X.copy(), y.copy(), candidates=None if cand is None else np.array(cand), batch_size=bs, return_utilities=return_utilities,
                             **kw)
            if not return_utilities:
                return ("ok", [int(i) for i in np.asarray(r).ravel()], None)
            return ("ok", [int(i) for i in np.asarray(r[0]).ravel()], np.asarray(r[1], dtype=float))
        except Exception as e:
            return ("exc", type(e).__name__, str(e)[:150])


def cand_modes(lab, X):
    u = PR.unlabeled(lab)
    if not u:
        return []
    out = [("none", None, u), ("idx", list(u), u), ("rows", X[u], list(range(len(u))))]
    if len(u) > 1:
        out.append(("idx_sub", u[1:], u[1:]))
    return out


def check_parallel(acc, inner, pname, tier):
    import skactiveml.pool as P

    X = SP.pool(pname)
    for lab in SP.labelings(len(X)):
        y = SP.make_y(lab, inner.task)
        for mode, cand, cset in cand_modes(lab, X):
            ref = _run(inner.make(0), X, y, cand, 1, T.Tape(), inner.query_kwargs(X))
            acc.transitions += 1
            if ref[0] != "ok":
                acc.case((inner.name, pname, lab, mode, "ref"), trivial=True)
                continue
            for nj in (1, 2, 3, -1):
                key = ("parallel", inner.name, pname, lab, mode, nj)
                acc.case(key)
                w = P.ParallelUtilityEstimationWrapper(query_strategy=inner.make(0), n_jobs=nj, parallel_dict={"backend": "threading"}, random_state=0)
                o = _run(w, X, y, cand, 1, T.Tape(), inner.query_kwargs(X))
                acc.transitions += 1
                acc.traces_validated += 1
                wit = {"wrapper": "ParallelUtilityEstimationWrapper(n_jobs=%d)" % nj, "inner": inner.name, "X": X.tolist(), "labels": list(lab), "cand_mode": mode}
                rep = {"what": "parallel", "inner": inner.name, "pool": pname, "labels": list(lab), "mode": mode}
                size = sum(v is not None for v in lab) * 10 + abs(nj)
                preds = {"n_jobs": nj, "n_cand": len(cset), "more_jobs_than_candidates": bool(nj == -1 or nj > len(cset)), "mode": mode}
                if o[0] != "ok":
                    acc.violation("ParallelUtilityEstimationWrapper", "wrapper_fails", "n_jobs=%d: %s: %s (the wrapped %s succeeds)" % (nj, o[1], o[2], inner.name),
                                  wit, dict(preds, exc=o[2][:50]), rep, size)
                    continue
                if o[2].shape != ref[2].shape or not np.allclose(o[2], ref[2], rtol=1e-9, atol=1e-12, equal_nan=True):
                    acc.violation("ParallelUtilityEstimationWrapper", "utilities_differ", "n_jobs=%d: wrapper %s, wrapped strategy %s" % (
                        nj, np.round(o[2], 6).tolist(), np.round(ref[2], 6).tolist()), wit, preds, rep, size)
                elif o[1] != ref[1]:
                    acc.violation("ParallelUtilityEstimationWrapper", "selection_differs", "n_jobs=%d: wrapper selects %s, wrapped strategy %s (same tape)" % (
                        nj, o[1], ref[1]), wit, preds, rep, size)
                acc.outcome((key, tuple(o[1])))


def check_subsample(acc, inner, pname, mc, tier):
    import skactiveml.pool as P

    X = SP.pool(pname)
    n = len(X)
    for lab in SP.labelings(n):
        y = SP.make_y(lab, inner.task)
        lbl = [i for i in range(n) if lab[i] is not None]
        for mode, cand, cset in cand_modes(lab, X):
            n_cols = n if mode != "rows" else len(cset)
            ncand = len(cset)
            doc_size = min(mc, ncand) if isinstance(mc, int) else min(ncand, math.ceil(ncand * mc))
            for excl, bs, ml in ((False, 1, NAN), (False, 2, NAN), (True, 1, NAN), (True, 2, NAN), (False, 1, -1.0), (True, 1, -1.0)):
                if ml == ml and inner.task != "clf":
                    continue  # the reserved-number sentinel is exercised with class labels only
                for _once in (0,):
                    y = SP.make_y(lab, inner.task)
                    if ml == ml:
                        y = np.where(np.isnan(y), ml, y)  # same labeling, missing labels encoded by the reserved number -1
                    key = ("subsample", inner.name, pname, lab, mode, mc, excl, bs, repr(ml))
                    acc.case(key)
                    wit = {"wrapper": "SubSamplingWrapper(max_candidates=%r, exclude_non_subsample=%r, missing_label=%r)" % (mc, excl, ml), "inner": inner.name, "X": X.tolist(),
                           "labels": list(lab), "cand_mode": mode, "batch_size": bs}
                    rep = {"what": "subsample", "inner": inner.name, "pool": pname, "mc": mc}
                    size = sum(v is not None for v in lab) * 10 + bs + (5 if excl else 0)
                    preds = {"exclude": excl, "mode": mode, "cold_start": len(lbl) == 0, "bs_gt_subset": bs > doc_size}

                    def run(tp):
                        w = P.SubSamplingWrapper(query_strategy=inner.make(0, ml), max_candidates=mc, exclude_non_subsample=excl, random_state=0,
                                                 missing_label=ml)
                        return _run(w, X, y, cand, bs, tp, inner.query_kwargs(X, ml))

                    seen_subsets = set()
                    for tp, o in T.explore(run, bound=3, max_runs=120):
                        acc.transitions += 1
                        if o[0] != "ok":
                            acc.violation("SubSamplingWrapper", "wrapper_fails", "%s: %s [tape %s]" % (o[1], o[2], tp.choices), wit, dict(preds, exc=o[2][:50]),
                                          rep, size)
                            break
                        sel, U = o[1], o[2]
                        if U.ndim != 2 or U.shape[1] != n_cols:
                            acc.violation("SubSamplingWrapper", "utilities_shape", "%s" % (U.shape,), wit, preds, rep, size)
                            break
                        row = U[0]
                        S = [j for j in range(n_cols) if np.isfinite(row[j])]
                        minus_inf = [j for j in range(n_cols) if row[j] == -np.inf]
                        nanpos = [j for j in range(n_cols) if np.isnan(row[j])]
                        bad = None
                        if sorted(S + minus_inf) != sorted(cset) or sorted(nanpos) != sorted(set(range(n_cols)) - set(cset)):
                            bad = ("layout", "finite %s, -inf %s, NaN %s but candidates are %s" % (S, minus_inf, nanpos, list(cset)))
                        elif len(S) != doc_size:
                            bad = ("subset_size", "sub-sample %s has size %d, documented size %d" % (S, len(S), doc_size))
                        elif any(s not in S for s in sel):
                            bad = ("selection_outside_subsample", "selected %s, sub-sample %s" % (sel, S))
                        if bad:
                            acc.violation("SubSamplingWrapper", bad[0], bad[1] + " [tape %s]" % tp.choices, wit, preds, rep, size)
                            break
                        seen_subsets.add(tuple(S))
                        # the selection is reported in the caller's index space whether or not the utilities are requested
                        w2 = P.SubSamplingWrapper(query_strategy=inner.make(0, ml), max_candidates=mc, exclude_non_subsample=excl, random_state=0,
                                                  missing_label=ml)
                        o2 = _run(w2, X, y, cand, bs, T.Tape(tp.choices), inner.query_kwargs(X, ml), return_utilities=False)
                        acc.transitions += 1
                        if o2[0] != "ok" or o2[1] != sel:
                            acc.violation("SubSamplingWrapper", "selection_depends_on_return_utilities", "with utilities %s, without %s [tape %s]" % (
                                sel, o2[1] if o2[0] == "ok" else o2[1:], tp.choices), wit, preds, rep, size)
                            break
                        # reference: the wrapped strategy called independently on the same sub-sample
                        if mode == "rows":
                            refc, back = X[PR.unlabeled(lab)][S] if False else np.asarray(cand)[S], None
                            Xr, yr = (X, y) if not excl else (X[lbl], y[lbl])
                            r = _run(inner.make(0, ml), Xr, yr, refc, 1, T.Tape(), inner.query_kwargs(Xr, ml)) if len(Xr) else ("exc", "empty", "")
                            ref_vals = None if r[0] != "ok" else r[2][0]
                        elif not excl:
                            r = _run(inner.make(0, ml), X, y, S, 1, T.Tape(), inner.query_kwargs(X, ml))
                            ref_vals = None if r[0] != "ok" else r[2][0][S]
                        else:
                            keep = sorted(set(lbl) | set(S))
                            Xr, yr = X[keep], y[keep]
                            r = _run(inner.make(0, ml), Xr, yr, None, 1, T.Tape(), inner.query_kwargs(Xr, ml))
                            ref_vals = None if r[0] != "ok" else r[2][0][[keep.index(s) for s in S]]
                        acc.transitions += 1
                        if ref_vals is not None:
                            acc.traces_validated += 1
                            if not np.allclose(row[S], ref_vals, rtol=1e-9, atol=1e-12, equal_nan=True):
                                acc.violation("SubSamplingWrapper", "utilities_differ", "sub-sample %s: wrapper reports %s, the wrapped strategy gives %s [tape %s]" % (
                                    S, np.round(row[S], 6).tolist(), np.round(ref_vals, 6).tolist(), tp.choices), wit, preds, rep, size)
                                break
                        if not (row[sel[0]] == np.nanmax(row)):
                            acc.violation("SubSamplingWrapper", "selection_not_maximal", "selected %s, row %s" % (sel, row.tolist()), wit, preds, rep, size)
                            break
                    # every subset of the documented size must be drawable
                    if not T.explore.capped and seen_subsets and len(seen_subsets) != math.comb(ncand, doc_size):
                        acc.violation("SubSamplingWrapper", "subsets_not_all_reachable", "%d of %d subsets of size %d reached" % (
                            len(seen_subsets), math.comb(ncand, doc_size), doc_size), wit, preds, rep, size)
                    acc.outcome((key, tuple(sorted(seen_subsets))))


def check_saw(acc, inner, tier):
    from checks import c07

    c07.check_order_transparency(acc, inner, tier)


def run_shard(spec):
    T.install()
    acc = Acc()
    inner = SP.BY_NAME[spec["inner"]]
    if spec["what"] == "parallel":
        check_parallel(acc, inner, spec["pool"], spec["tier"])
    elif spec["what"] == "subsample":
        check_subsample(acc, inner, spec["pool"], spec["mc"], spec["tier"])
    else:
        check_saw(acc, inner, spec["tier"])
    acc.states = len(acc.nontrivial)
    if not acc.samples:
        acc.sample({"what": spec["what"], "inner": spec["inner"], "pool": spec["pool"], "example": "all labelings x candidate modes"})
    return acc


def replay(spec):
    T.install()
    acc = Acc()
    inner = SP.BY_NAME[spec["inner"]]
    if spec["what"] == "parallel":
        check_parallel(acc, inner, spec["pool"], "thorough")
    elif spec["what"] == "subsample":
        check_subsample(acc, inner, spec["pool"], spec["mc"], "thorough")
    else:
        check_saw(acc, inner, "thorough")
    return [(s, k) for (s, k, _p) in acc.groups]
