"""C05 - a pool query has no side effects on caller data, models or settings.

For every pool strategy variant (incl. variants that reach lazily resolved
None defaults), histories of 1-3 consecutive queries on *different* data
(all labelings of small pools x candidate modes x batch sizes, consecutive
cases of the enumeration form a history) with fit_*=True and with
fit_*=False + pre-fitted model. After every query: byte-wise equality of
all input arrays, fingerprint of the caller's model object(s), fingerprint
of get_params(deep=True) incl. dict contents, pickle.dumps(strategy); after
every history: clone(strategy) behaves like a fresh strategy.
"""
import copy
import inspect
import itertools
import pickle
import warnings

import numpy as np
from sklearn.base import clone

from mc import fingerprint as F
from mc import poolrun as PR
from mc import tape as T
from mc.acc import Acc
from subjects import pool as SP

PROPERTY = "C05"
NAN = float("nan")
META = {
    "rule": "one case = (strategy variant, fit mode, history of up to 3 consecutive (pool, labeling, candidate mode, batch size) queries on one "
    "strategy object and one model object); distinct = distinct (variant, fit mode, history); trivial = the first query of the "
    "history is rejected with a documented exception",
    "assumptions": ["pools of 4 points, 2 classes; queries run under the default tape (ties resolved to the lowest index)",
                    "with fit_*=False the position of the caller model's own random generator is not compared (predicting with the "
                    "caller's model is what the flag asks for)"],
}

EXTRA_SUBJECTS = None


def extra_subjects():
    """variants that reach lazily resolved defaults"""
    global EXTRA_SUBJECTS
    if EXTRA_SUBJECTS is None:
        S = SP.Subject
        EXTRA_SUBJECTS = [
            S("ProbabilisticAL[metric=rbf]", "ProbabilisticAL", {"metric": "rbf"}, "pwc", samplewise=True),
            S("ExpectedModelOutputChange[integration_dict]", "ExpectedModelOutputChange", {"integration_dict": {"method": "assume_linear"}}, "nic",
              task="reg", samplewise=True, cost=3),
            S("Quire[metric_dict=None]", "Quire", {}, None, samplewise=True, needs_classes=True, arbitrary_idx=False),
            S("TypiClust[default]", "TypiClust", {}, None),
            S("TypiClust[cluster n_init]", "TypiClust", {"cluster_algo_dict": {"n_init": 1}}, None),
            S("ProbCover[cluster n_init]", "ProbCover", {"cluster_algo_dict": {"n_init": 1}}, None),
            S("Clue[cluster n_init]", "Clue", {"cluster_algo_dict": {"n_init": 1}}, "pwc", cost=2),
            S("DropQuery[cluster n_init]", "DropQuery", {"cluster_algo_dict": {"n_init": 1}}, "pwc", cost=2),
            S("CostEmbeddingAL[default]", "CostEmbeddingAL", {}, None, samplewise=True, needs_classes=True, cost=20, quick=False),
            # array-valued constructor parameters given as (unsorted / asymmetric) float64 ndarrays: they are the caller's arrays
            S("ProbCover[deltas=ndarray]", "ProbCover", {"cluster_algo_dict": SP.KM, "deltas": SP._lazy(lambda missing_label, classes: np.array([1.2, 0.3, 0.9]))},
              None),
            S("ProbabilisticAL[prior=ndarray]", "ProbabilisticAL", {"prior": SP._lazy(lambda missing_label, classes: np.array([2.0, 0.5]))}, "pwc",
              samplewise=True),
            S("UncertaintySampling[cost_matrix=ndarray]", "UncertaintySampling",
              {"method": "least_confident", "cost_matrix": SP._lazy(lambda missing_label, classes: np.array([[0.0, 2.0], [1.0, 0.0]]))}, "pwc", samplewise=True),
            S("CostEmbeddingAL[cost_matrix=ndarray]", "CostEmbeddingAL",
              {"mds_params": {"n_init": 1, "max_iter": 30}, "cost_matrix": SP._lazy(lambda missing_label, classes: np.array([[0.0, 2.0], [1.0, 0.0]]))}, None,
              samplewise=True, needs_classes=True, cost=6),
        ]
    return EXTRA_SUBJECTS


def all_subjects(tier):
    return [s for s in SP.SUBJECTS + extra_subjects() if s.quick or tier != "quick"]


def bounds(tier):
    q = tier == "quick"
    return {"multi_annotator_subjects": MULTI, "subjects": [s.name for s in all_subjects(tier)], "pools": ["line4", "dup4"], "history_length": 3, "fit_modes": ["fit", "prefit"],
            "candidate_modes": ["none", "idx(all unlabeled)", "rows"], "batch_sizes": [1, 2], "labelings": "all of {missing,0,1}^4" if not q else
            "every 2nd labeling of {missing,0,1}^4 (every 4th for expensive subjects)"}


MULTI = ["SingleAnnotatorWrapper[RandomSampling]", "SingleAnnotatorWrapper[UncertaintySampling[entropy]]", "SingleAnnotatorWrapper[ProbabilisticAL]",
         "IntervalEstimationThreshold"]


def shards(tier, seed):
    out = []
    for s in all_subjects(tier):
        for fm in ("fit", "prefit"):
            out.append({"tier": tier, "subject": s.name, "fit": fm})
    for m in MULTI:
        out.append({"tier": tier, "subject": m, "fit": "multi"})
    return out


def shard_cost(spec):
    if spec["fit"] == "multi":
        return 2
    return by_name(spec["subject"]).cost


def by_name(n):
    for s in SP.SUBJECTS + extra_subjects():
        if s.name == n:
            return s
    raise KeyError(n)


FIT_FLAG = {"clf": "fit_clf", "reg": "fit_reg", "ensemble": "fit_ensemble"}


def model_fp(model, skip_rng):
    def one(m):
        if skip_rng:
            c = F.canon(m, skip=("random_state_",))
        else:
            c = F.canon(m)
        return F.digest(c)

    if isinstance(model, (list, tuple)):
        return tuple(one(m) for m in model)
    return one(model)


def enumerate_queries(subj, tier):
    step = 1 if tier == "thorough" else (4 if subj.cost >= 3 else 2)
    qs = []
    for pname in ("line4", "dup4"):
        X = SP.pool(pname)
        labs = SP.labelings(4)
        for li, lab in enumerate(labs):
            if li % step:
                continue
            u = PR.unlabeled(lab)
            if not u:
                continue
            modes = [("none", None), ("idx", list(u)), ("rows", ("rows", list(u), False))]
            m = modes[li % 3]
            bs = 1 + (li // 3) % 2
            qs.append((pname, lab, m[0], m[1], bs))
    return qs


def run_history(acc, subj, fitmode, hist, tier):
    """hist: list of (pname, lab, mode, cand, bs) -> executed on one strategy and one model object"""
    key = (subj.name, fitmode, tuple((h[0], h[1], h[2], h[4]) for h in hist))
    wit = {"subject": subj.name, "fit_mode": fitmode, "history": [
        {"pool": h[0], "X": SP.POOLS[h[0]], "labels": list(h[1]), "cand_mode": h[2], "batch_size": h[4]} for h in hist]}
    rep = {"subject": subj.name, "fit": fitmode, "history": [[h[0], list(h[1]), h[2], h[4]] for h in hist]}
    size = len(hist)
    with warnings.catch_warnings():
        warnings.simplefilter("ignore")
        qs = subj.make(0)
        X0 = SP.pool(hist[0][0])
        kw = subj.query_kwargs(X0)
        p0 = F.params_fp(qs)
        params0 = F.params_dict_fp(qs)
        model_keys = [k for k in ("clf", "reg", "ensemble", "discriminator") if k in kw]
        sig = inspect.signature(qs.query).parameters
        if fitmode == "prefit":
            flag = [FIT_FLAG[k] for k in model_keys if k in FIT_FLAG and FIT_FLAG[k] in sig]
            if not flag:
                acc.case(key, trivial=True)
                return "skip"
            # pre-fit the caller's model on the first data set
            y0 = SP.make_y(hist[0][1], subj.task)
            for k in model_keys:
                m = kw[k]
                try:
                    if isinstance(m, list):
                        for e in m:
                            e.fit(X0, y0)
                    else:
                        m.fit(X0, y0)
                except Exception:
                    acc.case(key, trivial=True)
                    return "skip"
            for f_ in flag:
                kw[f_] = False
        first = True
        for (pname, lab, mode, cand, bs) in hist:
            X = SP.pool(pname)
            y = SP.make_y(lab, subj.task)
            cand_arg, _ = PR.materialise(cand, X)
            inputs = {"X": X, "y": y}
            if cand_arg is not None:
                inputs["candidates"] = cand_arg
            call = dict(kw)
            if "sample_weight" in sig and fitmode == "fit":
                inputs["sample_weight"] = np.array([1.0, 2.0, 1.0, 0.5])
                call["sample_weight"] = inputs["sample_weight"]
            if "utility_weight" in sig:
                n_uw = len(X) if cand_arg is None or cand_arg.ndim == 1 else len(cand_arg)
                inputs["utility_weight"] = np.linspace(1.0, 2.0, n_uw)
                call["utility_weight"] = inputs["utility_weight"]
            before = {k: (v.copy(), v.dtype, v.shape) for k, v in inputs.items()}
            mfp0 = {k: model_fp(kw[k], skip_rng=(fitmode == "prefit")) for k in model_keys}
            np.random.seed(PR.GLOBAL_SEED)
            try:
                with T.ties(T.Tape()), T.rng_override(PR.rng_factory):
                    qs.query(X, y, candidates=cand_arg, batch_size=bs, return_utilities=True, **call)
                ok = True
            except Exception as e:
                ok = False
                exc = e
            acc.transitions += 1
            if not ok and first:
                acc.case(key, trivial=True)
                return "rejected"
            first = False
            step_desc = "query %d (%s, labels %s, %s, batch_size %d)" % (hist.index((pname, lab, mode, cand, bs)) + 1, pname, list(lab), mode, bs)
            # inputs
            for k, (v0, dt, shp) in before.items():
                v = inputs[k]
                if v.dtype != dt or v.shape != shp or not np.array_equal(v, v0, equal_nan=True):
                    acc.violation(subj.name, "input_modified:" + k, "%s changed argument %s from %s to %s" % (step_desc, k, v0.tolist(), v.tolist()),
                                  wit, {"fit": fitmode}, rep, size)
            # model
            for k in model_keys:
                if model_fp(kw[k], skip_rng=(fitmode == "prefit")) != mfp0[k]:
                    d = _model_diff(kw[k])
                    acc.violation(subj.name, "caller_model_modified", "%s altered the caller's %s object (%s)" % (step_desc, k, d), wit,
                                  {"fit": fitmode, "model": k}, rep, size)
            # parameters
            if F.params_fp(qs) != p0:
                now = F.params_dict_fp(qs)
                ch = sorted(k for k in set(now) | set(params0) if now.get(k) != params0.get(k))
                acc.violation(subj.name, "get_params_changed", "%s changed constructor parameters %s (now %s)" % (
                    step_desc, ch, {k: repr(qs.get_params(deep=True).get(k))[:60] for k in ch[:3]}), wit, {"params": ",".join(ch[:3]), "fit": fitmode},
                    rep, size)
                p0 = F.params_fp(qs)  # report each change once
                params0 = now
            try:
                pickle.dumps(qs)
            except Exception as e:
                acc.violation(subj.name, "strategy_not_picklable", "%s: pickle.dumps(strategy) raises %s: %s" % (step_desc, type(e).__name__, str(e)[:100]),
                              wit, {"fit": fitmode}, rep, size)
        acc.case(key)
        acc.traces_validated += 1
        # clone behaves like a fresh strategy
        pname, lab, mode, cand, bs = hist[0]
        X = SP.pool(pname)
        y = SP.make_y(lab, subj.task)
        cand_arg, _ = PR.materialise(cand, X)
        outs = []
        for mk in ("clone", "fresh"):
            try:
                q2 = clone(qs) if mk == "clone" else subj.make(0)
                np.random.seed(PR.GLOBAL_SEED)
                with T.ties(T.Tape()), T.rng_override(PR.rng_factory):
                    r = q2.query(X, y, candidates=cand_arg, batch_size=bs, return_utilities=True, **subj.query_kwargs(X))
                outs.append(("ok", np.asarray(r[0]).tolist(), np.asarray(r[1], dtype=float)))
            except Exception as e:
                outs.append(("exc", type(e).__name__, str(e)[:80]))
            acc.transitions += 1
        a, b = outs
        same = a[0] == b[0] and (a[0] == "exc" and a[1] == b[1] or a[0] == "ok" and a[1] == b[1] and np.allclose(a[2], b[2], rtol=1e-9, atol=1e-12, equal_nan=True))
        if not same:
            acc.violation(subj.name, "clone_differs_from_fresh", "after the history clone(strategy).query gives %s, a fresh strategy gives %s" % (
                _o(a), _o(b)), wit, {"fit": fitmode}, rep, size)
        acc.outcome((subj.name, repr(a[:2])))
    return "ok"


def _o(a):
    return "exception %s: %s" % (a[1], a[2]) if a[0] == "exc" else "indices %s" % (a[1],)


def _model_diff(m):
    if isinstance(m, list):
        return "ensemble member attributes " + str(sorted(set(k for e in m for k in e.__dict__ if k.endswith("_")))[:6])
    return "fitted attributes now " + str(sorted(k for k in m.__dict__ if k.endswith("_"))[:8])


def check_multi(acc, name, only=None):
    """multi-annotator strategies: histories of 2 consecutive queries on one strategy object"""
    from checks import c07

    X = c07.X3
    cases = [c for i, c in enumerate(c07.gen_cases(name, "quick")) if i % 7 == 0]
    qs, extra, inner = c07.make_strategy(name)
    with warnings.catch_warnings():
        warnings.simplefilter("ignore")
        p0 = F.params_dict_fp(qs)
        kw = dict(extra or {})
        kw.update(c07.inner_kwargs(inner, X))
        mfp0 = {k: model_fp(v, False) for k, v in kw.items() if hasattr(v, "get_params") or isinstance(v, list)}
        for ci, (y, cand, annot) in enumerate(cases):
            if only is not None and ci != only:
                continue
            if isinstance(cand, tuple):
                rows = X[cand[1]]
                cand_arg = np.vstack([rows, c07.FOREIGN]) if cand[2] else rows
            else:
                cand_arg = None if cand is None else np.array(cand)
            avail = c07.available_pairs(y, cand, annot, None if not isinstance(cand, tuple) else len(cand_arg))
            m = y.shape[1]
            cnt = {}
            for r, a in avail:
                cnt[r] = cnt.get(r, 0) + 1
            n_rows = len(cand_arg) if isinstance(cand, tuple) else (len(X) if cand is None else len(cand))
            if not avail or len(cnt) < n_rows:
                continue  # empty availability rows: known non-termination (C07)
            key = (name, ci)
            inputs = {"X": X.copy(), "y": y.copy()}
            if cand_arg is not None:
                inputs["candidates"] = cand_arg.copy()
            if annot is not None:
                inputs["annotators"] = annot.copy()
            call = dict(kw)
            if name != "IntervalEstimationThreshold":
                inputs["A_perf"] = np.array([0.5, 0.25])
                call["A_perf"] = inputs["A_perf"]
                call["n_annotators_per_sample"] = 2
            before = {k: v.copy() for k, v in inputs.items()}
            np.random.seed(PR.GLOBAL_SEED)
            try:
                with T.ties(T.Tape()), T.rng_override(PR.rng_factory):
                    qs.query(inputs["X"], inputs["y"], candidates=inputs.get("candidates"), annotators=inputs.get("annotators"), batch_size=2,
                             return_utilities=True, **call)
            except Exception as e:
                acc.case(key, trivial=True)
                continue
            acc.transitions += 1
            acc.case(key)
            acc.traces_validated += 1
            wit = {"subject": name, "case": ci, "y": y.tolist(), "candidates": None if cand is None else repr(cand), "annotators": None if annot is None else annot.tolist()}
            rep = {"subject": name, "fit": "multi", "case": ci, "history": []}
            for k, v0 in before.items():
                v = inputs[k]
                if v.dtype != v0.dtype or v.shape != v0.shape or not np.array_equal(v, v0, equal_nan=(v.dtype.kind == "f")):
                    acc.violation(name, "input_modified:" + k, "query changed argument %s from %s to %s" % (k, v0.tolist(), v.tolist()), wit, {"fit": "multi"}, rep, ci)
            for k, f0 in mfp0.items():
                if model_fp(kw[k], False) != f0:
                    acc.violation(name, "caller_model_modified", "query altered the caller's %s object" % k, wit, {"fit": "multi", "model": k}, rep, ci)
            now = F.params_dict_fp(qs)
            if now != p0:
                ch = sorted(k for k in set(now) | set(p0) if now.get(k) != p0.get(k))
                acc.violation(name, "get_params_changed", "query changed constructor parameters %s" % ch, wit, {"params": ",".join(ch[:3]), "fit": "multi"}, rep, ci)
                p0 = now
            try:
                pickle.dumps(qs)
            except Exception as e:
                acc.violation(name, "strategy_not_picklable", "%s: %s" % (type(e).__name__, str(e)[:100]), wit, {"fit": "multi"}, rep, ci)
            if ci % 50 == 0:
                acc.sample({"subject": name, "y": y.tolist(), "candidates": None if cand is None else repr(cand), "annotators": None if annot is None else annot.tolist()}, limit=1)


def check_generator_parameter(acc, subj):
    """random_state given as a RandomState instance is a constructor parameter owned by the caller: queries work on a copy derived from
    it, the caller's generator is never advanced (real generator, no substitution; duplicated points so that ties consume randomness)"""
    X = SP.pool("dup4")
    for lab in ((0, None, 1, None), (None, None, None, None), (0, 1, None, None)):
        y = SP.make_y(lab, subj.task)
        rs = np.random.RandomState(3)
        st0 = rs.get_state()
        key = (subj.name, "generator-parameter", lab)
        with warnings.catch_warnings():
            warnings.simplefilter("ignore")
            try:
                qs = subj.make(rs)
                for _ in range(2):
                    qs.query(X.copy(), y.copy(), batch_size=2, **subj.query_kwargs(X))
            except Exception:
                acc.case(key, trivial=True)
                continue
        acc.case(key)
        acc.transitions += 2
        acc.traces_validated += 1
        st1 = rs.get_state()
        if not (st0[0] == st1[0] and np.array_equal(st0[1], st1[1]) and st0[2:] == st1[2:]):
            acc.violation(subj.name, "generator_parameter_advanced", "two queries advanced the RandomState instance that was passed as random_state "
                          "(position %d -> %d)" % (st0[2], st1[2]), {"subject": subj.name, "X": X.tolist(), "labels": list(lab), "random_state": "RandomState(3)"},
                          {"fit": "fit"}, {"subject": subj.name, "fit": "fit", "history": [], "generator_parameter": list(lab)}, 1)


def run_shard(spec):
    T.install()
    acc = Acc()
    if spec["fit"] == "fit":
        check_generator_parameter(acc, by_name(spec["subject"]))
    if spec["fit"] == "multi":
        check_multi(acc, spec["subject"])
        acc.states = len(acc.nontrivial)
        return acc
    subj = by_name(spec["subject"])
    qs = enumerate_queries(subj, spec["tier"])
    for i in range(0, len(qs)):
        for L in (1, 3):
            hist = qs[i:i + L]
            if len(hist) < L:
                continue
            if L == 3 and i % 2:
                continue
            run_history(acc, subj, spec["fit"], hist, spec["tier"])
        if i % 37 == 0:
            acc.sample({"subject": subj.name, "fit_mode": spec["fit"], "history": [[h[0], list(h[1]), h[2], h[4]] for h in qs[i:i + 3]]}, limit=1)
    acc.states = len(acc.nontrivial)
    return acc


def replay(spec):
    T.install()
    acc = Acc()
    if spec["fit"] == "multi":
        check_multi(acc, spec["subject"])
        return [(s, k) for (s, k, _p) in acc.groups]
    subj = by_name(spec["subject"])
    if spec.get("generator_parameter") is not None:
        check_generator_parameter(acc, subj)
        return [(s, k) for (s, k, _p) in acc.groups]
    hist = []
    for pname, lab, mode, bs in spec["history"]:
        lab = tuple(None if v is None else int(v) for v in lab)
        u = PR.unlabeled(lab)
        cand = None if mode == "none" else (list(u) if mode == "idx" else ("rows", list(u), False))
        hist.append((pname, lab, mode, cand, int(bs)))
    run_history(acc, subj, spec["fit"], hist, "thorough")
    return [(s, k) for (s, k, _p) in acc.groups]
