"""C05 - a pool query has no side effects on caller data, models or settings.

For every pool strategy variant (incl. variants that reach lazily resolved
None defaults), histories of 1-3 consecutive queries on *different* data
(all labelings of small pools x candidate modes x batch sizes, consecutive
cases of the enumeration form a history) with fit_*=True and with
fit_*=False + pre-fitted model. After every query: byte-wise equality of
all input arrays, fingerprint of the caller's model object(s), fingerprint
of get_params(deep=True) incl. dict contents, pickle.dumps(strategy); after
every history: clone(strategy) behaves like a fresh strategy.
"""
import copy
import inspect
import itertools
import pickle
import warnings

import numpy as np
from sklearn.base import clone

from mc import fingerprint as F
from mc import poolrun as PR
from mc import tape as T
from mc.acc import Acc
from subjects import pool as SP

PROPERTY = "C05"
NAN = float("nan")
META = {
    "rule": "one case = (strategy variant, fit mode, history of up to 3 consecutive (pool, labeling, candidate mode, batch size) queries on one "
    "strategy object and one model object); distinct = distinct (variant, fit mode, history); trivial = the first query of the "
    "history is rejected with a documented exception",
    "assumptions": ["pools of 4 points, 2 classes; queries run under the default tape (ties resolved to the lowest index)",
                    "with fit_*=False the position of the caller model's own random generator is not compared (predicting with the "
                    "caller's model is what the flag asks for)"],
}

EXTRA_SUBJECTS = None


def extra_subjects():
    """variants that reach lazily resolved defaults"""
    global EXTRA_SUBJECTS
    if EXTRA_SUBJECTS is None:
        S = SP.Subject
        EXTRA_SUBJECTS = [
            S("ProbabilisticAL[metric=rbf]", "ProbabilisticAL", {"metric": "rbf"}, "pwc", samplewise=True),
            S("ExpectedModelOutputChange[integration_dict]", "ExpectedModelOutputChange", {"integration_dict": {"method": "assume_linear"}}, "nic",
              task="reg", samplewise=True, cost=3),
            S("Quire[metric_dict=None]", "Quire", {}, None, samplewise=True, needs_classes=True, arbitrary_idx=False),
            S("TypiClust[default]", "TypiClust", {}, None),
            S("CostEmbeddingAL[default]", "CostEmbeddingAL", {}, None, samplewise=True, needs_classes=True, cost=20, quick=False),
        ]
    return EXTRA_SUBJECTS


def all_subjects(tier):
    return [s for s in SP.SUBJECTS + extra_subjects() if s.quick or tier != "quick"]


def bounds(tier):
    q = tier == "quick"
    return {"subjects": [s.name for s in all_subjects(tier)], "pools": ["line4", "dup4"], "history_length": 3, "fit_modes": ["fit", "prefit"],
            "candidate_modes": ["none", "idx(all unlabeled)", "rows"], "batch_sizes": [1, 2], "labelings": "all of {missing,0,1}^4" if not q else
            "every 2nd labeling of {missing,0,1}^4 (every 4th for expensive subjects)"}


def shards(tier, seed):
    out = []
    for s in all_subjects(tier):
        for fm in ("fit", "prefit"):
            out.append({"tier": tier, "subject": s.name, "fit": fm})
    return out


def shard_cost(spec):
    return by_name(spec["subject"]).cost


def by_name(n):
    for s in SP.SUBJECTS + extra_subjects():
        if s.name == n:
            return s
    raise KeyError(n)


FIT_FLAG = {"clf": "fit_clf", "reg": "fit_reg", "ensemble": "fit_ensemble"}


def model_fp(model, skip_rng):
    def one(m):
        if skip_rng:
            c = F.canon(m, skip=("random_state_",))
        else:
            c = F.canon(m)
        return F.digest(c)

    if isinstance(model, (list, tuple)):
        return tuple(one(m) for m in model)
    return one(model)


def enumerate_queries(subj, tier):
    step = 1 if tier == "thorough" else (4 if subj.cost >= 3 else 2)
    qs = []
    for pname in ("line4", "dup4"):
        X = SP.pool(pname)
        labs = SP.labelings(4)
        for li, lab in enumerate(labs):
            if li % step:
                continue
            u = PR.unlabeled(lab)
            if not u:
                continue
            modes = [("none", None), ("idx", list(u)), ("rows", ("rows", list(u), False))]
            m = modes[li % 3]
            bs = 1 + (li // 3) % 2
            qs.append((pname, lab, m[0], m[1], bs))
    return qs


def run_history(acc, subj, fitmode, hist, tier):
    """hist: list of (pname, lab, mode, cand, bs) -> executed on one strategy and one model object"""
    key = (subj.name, fitmode, tuple((h[0], h[1], h[2], h[4]) for h in hist))
    wit = {"subject": subj.name, "fit_mode": fitmode, "history": [
        {"pool": h[0], "X": SP.POOLS[h[0]], "labels": list(h[1]), "cand_mode": h[2], "batch_size": h[4]} for h in hist]}
    rep = {"subject": subj.name, "fit": fitmode, "history": [[h[0], list(h[1]), h[2], h[4]] for h in hist]}
    size = len(hist)
    with warnings.catch_warnings():
        warnings.simplefilter("ignore")
        qs = subj.make(0)
        X0 = SP.pool(hist[0][0])
        kw = subj.query_kwargs(X0)
        p0 = F.params_fp(qs)
        params0 = F.params_dict_fp(qs)
        model_keys = [k for k in ("clf", "reg", "ensemble", "discriminator") if k in kw]
        sig = inspect.signature(qs.query).parameters
        if fitmode == "prefit":
            flag = [FIT_FLAG[k] for k in model_keys if k in FIT_FLAG and FIT_FLAG[k] in sig]
            if not flag:
                acc.case(key, trivial=True)
                return "skip"
            # pre-fit the caller's model on the first data set
            y0 = SP.make_y(hist[0][1], subj.task)
            for k in model_keys:
                m = kw[k]
                try:
                    if isinstance(m, list):
                        for e in m:
                            e.fit(X0, y0)
                    else:
                        m.fit(X0, y0)
                except Exception:
                    acc.case(key, trivial=True)
                    return "skip"
            for f_ in flag:
                kw[f_] = False
        first = True
        for (pname, lab, mode, cand, bs) in hist:
            X = SP.pool(pname)
            y = SP.make_y(lab, subj.task)
            cand_arg, _ = PR.materialise(cand, X)
            inputs = {"X": X, "y": y}
            if cand_arg is not None:
                inputs["candidates"] = cand_arg
            call = dict(kw)
            if "sample_weight" in sig and fitmode == "fit":
                inputs["sample_weight"] = np.array([1.0, 2.0, 1.0, 0.5])
                call["sample_weight"] = inputs["sample_weight"]
            if "utility_weight" in sig:
                n_uw = len(X) if cand_arg is None or cand_arg.ndim == 1 else len(cand_arg)
                inputs["utility_weight"] = np.linspace(1.0, 2.0, n_uw)
                call["utility_weight"] = inputs["utility_weight"]
            before = {k: (v.copy(), v.dtype, v.shape) for k, v in inputs.items()}
            mfp0 = {k: model_fp(kw[k], skip_rng=(fitmode == "prefit")) for k in model_keys}
            np.random.seed(PR.GLOBAL_SEED)
            try:
                with T.ties(T.Tape()), T.rng_override(PR.rng_factory):
                    qs.query(X, y, candidates=cand_arg, batch_size=bs, return_utilities=True, **call)
                ok = True
            except Exception as e:
                ok = False
                exc = e
            acc.transitions += 1
            if not ok and first:
                acc.case(key, trivial=True)
                return "rejected"
            first = False
            step_desc = "query %d (%s, labels %s, %s, batch_size %d)" % (hist.index((pname, lab, mode, cand, bs)) + 1, pname, list(lab), mode, bs)
            # inputs
            for k, (v0, dt, shp) in before.items():
                v = inputs[k]
                if v.dtype != dt or v.shape != shp or not np.array_equal(v, v0, equal_nan=True):
                    acc.violation(subj.name, "input_modified:" + k, "%s changed argument %s from %s to %s" % (step_desc, k, v0.tolist(), v.tolist()),
                                  wit, {"fit": fitmode}, rep, size)
            # model
            for k in model_keys:
                if model_fp(kw[k], skip_rng=(fitmode == "prefit")) != mfp0[k]:
                    d = _model_diff(kw[k])
                    acc.violation(subj.name, "caller_model_modified", "%s altered the caller's %s object (%s)" % (step_desc, k, d), wit,
                                  {"fit": fitmode, "model": k}, rep, size)
            # parameters
            if F.params_fp(qs) != p0:
                now = F.params_dict_fp(qs)
                ch = sorted(k for k in set(now) | set(params0) if now.get(k) != params0.get(k))
                acc.violation(subj.name, "get_params_changed", "%s changed constructor parameters %s (now %s)" % (
                    step_desc, ch, {k: repr(qs.get_params(deep=True).get(k))[:60] for k in ch[:3]}), wit, {"params": ",".join(ch[:3]), "fit": fitmode},
                    rep, size)
                p0 = F.params_fp(qs)  # report each change once
                params0 = now
            try:
                pickle.dumps(qs)
            except Exception as e:
                acc.violation(subj.name, "strategy_not_picklable", "%s: pickle.dumps(strategy) raises %s: %s" % (step_desc, type(e).__name__, str(e)[:100]),
                              wit, {"fit": fitmode}, rep, size)
        acc.case(key)
        acc.traces_validated += 1
        # clone behaves like a fresh strategy
        pname, lab, mode, cand, bs = hist[0]
        X = SP.pool(pname)
        y = SP.make_y(lab, subj.task)
        cand_arg, _ = PR.materialise(cand, X)
        outs = []
        for mk in ("clone", "fresh"):
            try:
                q2 = clone(qs) if mk == "clone" else subj.make(0)
                np.random.seed(PR.GLOBAL_SEED)
                with T.ties(T.Tape()), T.rng_override(PR.rng_factory):
                    r = q2.query(X, y, candidates=cand_arg, batch_size=bs, return_utilities=True, **subj.query_kwargs(X))
                outs.append(("ok", np.asarray(r[0]).tolist(), np.asarray(r[1], dtype=float)))
            except Exception as e:
                outs.append(("exc", type(e).__name__, str(e)[:80]))
            acc.transitions += 1
        a, b = outs
        same = a[0] == b[0] and (a[0] == "exc" and a[1] == b[1] or a[0] == "ok" and a[1] == b[1] and np.allclose(a[2], b[2], rtol=1e-9, atol=1e-12, equal_nan=True))
        if not same:
            acc.violation(subj.name, "clone_differs_from_fresh", "after the history clone(strategy).query gives %s, a fresh strategy gives %s" % (
                _o(a), _o(b)), wit, {"fit": fitmode}, rep, size)
        acc.outcome((subj.name, repr(a[:2])))
    return "ok"


def _o(a):
    return "exception %s: %s" % (a[1], a[2]) if a[0] == "exc" else "indices %s" % (a[1],)


def _model_diff(m):
    if isinstance(m, list):
        return "ensemble member attributes " + str(sorted(set(k for e in m for k in e.__dict__ if k.endswith("_")))[:6])
    return "fitted attributes now " + str(sorted(k for k in m.__dict__ if k.endswith("_"))[:8])


def run_shard(spec):
    T.install()
    acc = Acc()
    subj = by_name(spec["subject"])
    qs = enumerate_queries(subj, spec["tier"])
    for i in range(0, len(qs)):
        for L in (1, 3):
            hist = qs[i:i + L]
            if len(hist) < L:
                continue
            if L == 3 and i % 2:
                continue
            run_history(acc, subj, spec["fit"], hist, spec["tier"])
        if i % 37 == 0:
            acc.sample({"subject": subj.name, "fit_mode": spec["fit"], "history": [[h[0], list(h[1]), h[2], h[4]] for h in qs[i:i + 3]]}, limit=1)
    acc.states = len(acc.nontrivial)
    return acc


def replay(spec):
    T.install()
    acc = Acc()
    subj = by_name(spec["subject"])
    hist = []
    for pname, lab, mode, bs in spec["history"]:
        lab = tuple(None if v is None else int(v) for v in lab)
        u = PR.unlabeled(lab)
        cand = None if mode == "none" else (list(u) if mode == "idx" else ("rows", list(u), False))
        hist.append((pname, lab, mode, cand, int(bs)))
    run_history(acc, subj, spec["fit"], hist, "thorough")
    return [(s, k) for (s, k, _p) in acc.groups]
