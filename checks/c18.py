"""C18 - selection primitives pick true optima and well-formed batches.

Exhaustive enumeration of all small utility arrays over a value alphabet that
contains NaN, ties, negative values and infinities; for each array the
generator is owned at the *generator level* (TapeRNG ordering mode: every
ordering of the random vector for n <= 4, rotations/reflections above), so
the set of outcomes over all tapes is compared with the tie set (fairness).
Real-seed conformance: the real generator's random vector is observed, its
ordering is replayed through the tape model and must give the same result.
This check also discharges the assume/guarantee step of the tie-level
substitution (mc/tape.py) used by C01, C02, C05, C07, C08, C14, C20.
"""
import itertools
import math
import warnings

import numpy as np

from mc import tape as T
from mc.acc import Acc
from mc.guard import chunks

PROPERTY = "C18"
NAN = float("nan")
INF = float("inf")

META = {
    "rule": "one case = (primitive, array over the value alphabet, axis / batch_size / method); all tapes of the case are "
    "explored inside it; a case is trivial when the array has no non-NaN entry or the input is rejected by the "
    "primitive's own validation (+-inf or fewer positive weights than picks in simple_batch); distinct = distinct "
    "(primitive, array bytes, parameters)",
    "assumptions": [
        "value alphabets as listed in bounds; arrays longer than the bound are not explored",
        "RandomState.random() never returns exactly 0.0 (probability 2^-53 per draw)",
        "for vectors longer than 4 the ordering alphabet is the 2n rotations/reflections (every position can be the largest)",
    ],
}


def bounds(tier):
    if tier == "quick":
        return dict(
            argmax_alphabet=["nan", "-inf", -1, 0, 1, "inf"], argmax_maxlen=4,
            argmax_near_alphabet=["nan", 0, 1e-12, -1e-12, 1, 1.0000001, 0.9999999, -1, -1.0000001], argmax_near_maxlen=3,
            argmax2d_shapes=[[2, 2], [3, 2]], argmax2d_alphabet=["nan", 0, 1],
            batch_max_alphabet=["nan", -1, 0, 0.5, 1], batch_maxlen=4,
            batch_prop_alphabet=["nan", 0, 1, 2], batch_prop_tiny_alphabet=["nan", 0, 1e-6, 5], batch_prop_tiny_maxlen=4,
            batch2d_shapes=[[2, 2]], real_seeds=4,
        )
    return dict(
        argmax_alphabet=["nan", "-inf", -1, 0, 1, "inf"], argmax_maxlen=5,
        argmax_near_alphabet=["nan", 0, 1e-12, -1e-12, 1, 1.0000001, 0.9999999, -1, -1.0000001], argmax_near_maxlen=4,
        argmax2d_shapes=[[2, 2], [3, 2], [2, 3]], argmax2d_alphabet=["nan", 0, 1],
        batch_max_alphabet=["nan", -1, 0, 0.5, 1], batch_maxlen=5,
        batch_prop_alphabet=["nan", 0, 1, 2], batch_prop_tiny_alphabet=["nan", 0, 1e-6, 1e-300, 5], batch_prop_tiny_maxlen=5,
        batch2d_shapes=[[2, 2], [2, 3]], real_seeds=8,
    )


def _val(v):
    return {"nan": NAN, "inf": INF, "-inf": -INF}.get(v, v)


def _cases(tier):
    b = bounds(tier)
    out = []
    A = [_val(v) for v in b["argmax_alphabet"]]
    for n in range(1, b["argmax_maxlen"] + 1):
        for vals in itertools.product(A, repeat=n):
            for fn in ("rand_argmax", "rand_argmin"):
                out.append((fn, [n], list(vals), None))
    # near ties and tiny magnitudes: an "exact optimum" must not be confused with an approximately equal entry
    N = [_val(v) for v in b["argmax_near_alphabet"]]
    for n in range(2, b["argmax_near_maxlen"] + 1):
        for vals in itertools.product(N, repeat=n):
            for fn in ("rand_argmax", "rand_argmin"):
                out.append((fn, [n], list(vals), None))
    A2 = [_val(v) for v in b["argmax2d_alphabet"]]
    for shape in b["argmax2d_shapes"]:
        for vals in itertools.product(A2, repeat=shape[0] * shape[1]):
            for fn in ("rand_argmax", "rand_argmin"):
                for axis in (None, 0, 1):
                    out.append((fn, shape, list(vals), axis))
    B = [_val(v) for v in b["batch_max_alphabet"]]
    for n in range(1, b["batch_maxlen"] + 1):
        for vals in itertools.product(B, repeat=n):
            for bs in range(1, n + 2):
                out.append(("simple_batch:max", [n], list(vals), bs))
    P = [_val(v) for v in b["batch_prop_alphabet"]]
    for n in range(1, b["batch_maxlen"] + 1):
        for vals in itertools.product(P, repeat=n):
            for bs in range(1, n + 2):
                out.append(("simple_batch:proportional", [n], list(vals), bs))
    # weights of very different magnitude: a light but positive weight must stay selectable, a zero weight / NaN must not become so
    PT = [_val(v) for v in b["batch_prop_tiny_alphabet"]]
    for n in range(2, b["batch_prop_tiny_maxlen"] + 1):
        for vals in itertools.product(PT, repeat=n):
            if not any(v == v and 0 < v < 1e-3 for v in vals):
                continue  # covered by the plain alphabet
            for bs in range(1, n + 1):
                out.append(("simple_batch:proportional", [n], list(vals), bs))
    for shape in b["batch2d_shapes"]:
        for vals in itertools.product(A2, repeat=shape[0] * shape[1]):
            for bs in range(1, shape[0] * shape[1] + 2):
                out.append(("simple_batch:max", shape, list(vals), bs))
    for vals in itertools.product([1.0, 1.0000001, 0.9999999, 1e-12, 0.0], repeat=3):
        for bs in (1, 2, 3):
            out.append(("simple_batch:max", [3], list(vals), bs))
    # one inf case per simple_batch method: documented rejection
    out.append(("simple_batch:max", [2], [INF, 0.0], 1))
    return out


def shards(tier, seed):
    cs = _cases(tier)
    return [{"tier": tier, "seed": seed, "part": i, "of": 48} for i in range(48)]


def _tieset(a, is_max, axis):
    """reference: positions of the exact optimum of the non-NaN entries."""
    a = np.asarray(a, dtype=float)
    if axis is None:
        flat = a.ravel()
        best, pos = None, []
        for i, v in enumerate(flat):
            if v != v:
                continue
            if best is None or (v > best if is_max else v < best):
                best, pos = v, [i]
            elif v == best:
                pos.append(i)
        return [pos]
    m = np.moveaxis(a, axis, -1).reshape(-1, a.shape[axis])
    out = []
    for row in m:
        out += _tieset(row, is_max, None)
    return out


def _flat_result(res, a, axis):
    res = np.asarray(res)
    if axis is None:
        if a.ndim > 1:
            return [int(np.ravel_multi_index(tuple(int(x) for x in res), a.shape))]
        return [int(res[0])]
    return [int(x) for x in res.reshape(-1)]


class _Obs(np.random.RandomState):
    """real generator that remembers its last random vector"""

    def random(self, size=None):
        r = super().random_sample(size)
        self.last = np.array(r, copy=True)
        return r

    random_sample = random


def _check_argfn(acc, fn, shape, vals, axis, nseeds, seed0):
    import skactiveml.utils._selection as S

    f = getattr(S, fn)
    omax, omin = T.originals()
    f = omax if fn == "rand_argmax" else omin
    is_max = fn == "rand_argmax"
    a = np.array(vals, dtype=float).reshape(shape)
    kw = {} if axis is None else {"axis": axis}
    ties = _tieset(a, is_max, axis)
    trivial = all(len(t) == 0 for t in ties)
    key = (fn, tuple(shape), a.tobytes(), axis)
    if not acc.case(key, trivial=trivial):
        if trivial:
            return
    wit = {"fn": fn, "shape": shape, "values": vals, "axis": axis}
    rep = {"kind": "argfn", "fn": fn, "shape": shape, "values": vals, "axis": axis}
    reached = [set() for _ in ties]

    def run(tp):
        rng = T.TapeRNG(0, tp, scripted=("uniform", "choice"))
        return f(a.copy(), random_state=rng, **kw)

    nexec = 0
    # bound = number of choice points here is 1 (one random vector), all
    # alternatives are enumerated: deviation bound 1 is exhaustive
    for tp, res in T.explore(run, bound=1):
        nexec += 1
        acc.transitions += 1
        got = _flat_result(res, a, axis)
        expected_shape = (a.ndim,) if (axis is None and a.ndim > 1) else ((1,) if (axis is None or a.ndim == 1) else tuple(np.delete(a.shape, axis)))
        if tuple(np.asarray(res).shape) != tuple(expected_shape):
            acc.violation(fn, "result_shape", "shape %s expected %s" % (np.asarray(res).shape, expected_shape), wit, replay=rep, size=len(vals))
        for j, (t, g) in enumerate(zip(ties, got)):
            if len(t) == 0:
                continue
            if g not in t:
                acc.violation(fn, "not_an_optimum", "returned position %d, optima %s (tape %s)" % (g, t, tp.choices), wit,
                              replay=rep, size=len(vals))
            else:
                reached[j].add(g)
        acc.outcome((fn, key, tuple(got)))
    for t, r in zip(ties, reached):
        if len(t) and set(t) != r:
            acc.violation(fn, "tie_not_reachable", "optima %s but only %s reachable over %d orderings" % (t, sorted(r), nexec), wit,
                          replay=rep, size=len(vals))
    # real seeds: optimality, reproducibility, conformance with tape model
    for s in range(seed0, seed0 + nseeds):
        o1 = _Obs(s)
        r1 = f(a.copy(), random_state=o1, **kw)
        r2 = f(a.copy(), random_state=s, **kw)
        r3 = f(a.copy(), random_state=np.random.RandomState(s), **kw)
        acc.transitions += 3
        if not (np.array_equal(r1, r2) and np.array_equal(r2, r3)):
            acc.violation(fn, "not_reproducible", "seed %d: %s vs %s vs %s" % (s, r1, r2, r3), wit, replay=rep, size=len(vals))
        got = _flat_result(r1, a, axis)
        for t, g in zip(ties, got):
            if len(t) and g not in t:
                acc.violation(fn, "not_an_optimum", "seed %d returned %d, optima %s" % (s, g, t), wit, replay=rep, size=len(vals))
        # conformance: the ordering of the observed vector replayed on the tape model
        n = a.size
        if n >= 2 and n <= 4:
            perm = tuple(int(x) for x in np.argsort(np.argsort(o1.last.ravel())))
            perms = T._orderings(n)
            tp = T.Tape([perms.index(perm)])
            r4 = f(a.copy(), random_state=T.TapeRNG(0, tp, scripted=("uniform", "choice")), **kw)
            acc.traces_validated += 1
            if not np.array_equal(r1, r4):
                acc.engine_error("C18 conformance: seed %d ordering %s real %s model %s for %s" % (s, perm, r1, r4, wit))
        elif n == 1:
            acc.traces_validated += 1


def _check_batch(acc, method, shape, vals, bs, nseeds, seed0):
    import skactiveml.utils._selection as S

    u = np.array(vals, dtype=float).reshape(shape)
    n_valid = int(np.sum(~np.isnan(u)))
    key = ("simple_batch", method, tuple(shape), u.tobytes(), bs)
    wit = {"fn": "simple_batch", "method": method, "shape": shape, "utilities": vals, "batch_size": bs}
    rep = {"kind": "batch", "method": method, "shape": shape, "values": vals, "bs": bs}
    has_inf = bool(np.isinf(u).any())
    k = min(bs, n_valid)
    n_pos = int(np.sum(u[~np.isnan(u)] > 0))
    rejected_ok = has_inf or (method == "proportional" and (n_pos < k or n_valid == 0 or np.nansum(u) <= 0))
    acc.case(key, trivial=(n_valid == 0 or rejected_ok))
    subj = "simple_batch:" + method

    def judge(idx, rows, how):
        idx = np.asarray(idx)
        if u.ndim == 1:
            if idx.shape != (k,):
                acc.violation(subj, "batch_length", "%s: indices shape %s expected (%d,)" % (how, idx.shape, k), wit, replay=rep, size=len(vals))
                return
            pos = [(int(i),) for i in idx]
        else:
            if idx.shape != (k, u.ndim):
                acc.violation(subj, "batch_length", "%s: indices shape %s expected (%d,%d)" % (how, idx.shape, k, u.ndim), wit, replay=rep, size=len(vals))
                return
            pos = [tuple(int(x) for x in r) for r in idx]
        if len(set(pos)) != len(pos):
            acc.violation(subj, "duplicate_pick", "%s: picks %s" % (how, pos), wit, replay=rep, size=len(vals))
        picked_vals = [u[p] for p in pos]
        if any(v != v for v in picked_vals):
            acc.violation(subj, "nan_pick", "%s: picks %s have utilities %s" % (how, pos, picked_vals), wit, replay=rep, size=len(vals))
        if method == "max":
            for i in range(len(picked_vals) - 1):
                if not picked_vals[i] >= picked_vals[i + 1]:
                    acc.violation(subj, "not_nonincreasing", "%s: utilities of picks %s" % (how, picked_vals), wit, replay=rep, size=len(vals))
                    break
        else:
            if any(not (v > 0) for v in picked_vals):
                acc.violation(subj, "zero_weight_pick", "%s: picks %s have weights %s" % (how, pos, picked_vals), wit, replay=rep, size=len(vals))
        rows = np.asarray(rows)
        if rows.shape != (k,) + u.shape:
            acc.violation(subj, "utilities_shape", "%s: %s expected %s" % (how, rows.shape, (k,) + u.shape), wit, replay=rep, size=len(vals))
            return
        exp = u.copy()
        for i in range(k):
            if not np.array_equal(rows[i], exp, equal_nan=True):
                acc.violation(subj, "row_masking", "%s: row %d is %s expected %s" % (how, i, rows[i].tolist(), exp.tolist()), wit, replay=rep, size=len(vals))
                break
            if method == "max":
                with warnings.catch_warnings():
                    warnings.simplefilter("ignore")
                    if np.sum(~np.isnan(exp)) and not (exp[pos[i]] == np.nanmax(exp)):
                        acc.violation(subj, "pick_not_row_max", "%s: step %d picked %s from %s" % (how, i, pos[i], exp.tolist()), wit, replay=rep, size=len(vals))
            exp[pos[i]] = np.nan
        acc.outcome((key, tuple(pos)))

    def call(rs, tp, mode):
        try:
            if tp is not None and method == "max":
                with T.ties(tp, mode):
                    # the patched name lives in the module namespace
                    return S.simple_batch(u.copy(), random_state=rs, batch_size=bs, return_utilities=True, method=method)
            return S.simple_batch(u.copy(), random_state=rs, batch_size=bs, return_utilities=True, method=method)
        except ValueError as e:
            return e

    # exploration over tapes
    def run(tp):
        if method == "max":
            return call(np.random.RandomState(0), tp, "substitute")
        return call(T.TapeRNG(0, tp, scripted=("uniform", "choice")), None, None)

    bound = 2 if method == "max" else 8
    for tp, res in T.explore(run, bound=bound, max_runs=5000):
        acc.transitions += 1
        if isinstance(res, Exception):
            if rejected_ok:
                acc.reject("simple_batch ValueError (inf / too few positive weights)")
            else:
                acc.violation(subj, "unexpected_exception", "%r" % res, wit, replay=rep, size=len(vals))
            continue
        if has_inf:
            continue
        judge(res[0], res[1], "tape %s" % tp.choices)
        # without utilities the indices must be the same
    if T.explore.capped:
        acc.cap("simple_batch tape exploration capped at 5000 for %s" % (wit,))
    # real seeds
    for s in range(seed0, seed0 + nseeds):
        r1 = call(s if method == "proportional" else np.random.RandomState(s), None, None)
        r2 = call(np.random.RandomState(s), None, None)
        acc.transitions += 2
        if isinstance(r1, Exception) or isinstance(r2, Exception):
            if not rejected_ok:
                acc.violation(subj, "unexpected_exception", "%r" % (r1,), wit, replay=rep, size=len(vals))
            continue
        if has_inf:
            continue
        if not (np.array_equal(r1[0], r2[0]) and np.array_equal(r1[1], r2[1], equal_nan=True)):
            acc.violation(subj, "not_reproducible", "seed %d: %s vs %s" % (s, r1[0], r2[0]), wit, replay=rep, size=len(vals))
        judge(r1[0], r1[1], "seed %d" % s)
        # return_utilities=False gives the same indices
        try:
            r3 = S.simple_batch(u.copy(), random_state=np.random.RandomState(s), batch_size=bs, method=method)
            if not np.array_equal(r3, r2[0]):
                acc.violation(subj, "indices_depend_on_return_utilities", "%s vs %s" % (r3, r2[0]), wit, replay=rep, size=len(vals))
        except ValueError:
            pass
        if s == seed0 and method == "max" and not has_inf:
            # the same values in a buffer that is neither C- nor F-contiguous (every second element / column of a larger array)
            if u.ndim == 1:
                buf = np.zeros(2 * u.shape[0] + 1)
                v = buf[1::2][: u.shape[0]]
            else:
                buf = np.zeros((u.shape[0], 2 * u.shape[1] + 1))
                v = buf[:, 1::2][:, : u.shape[1]]
            v[...] = u
            try:
                rv = S.simple_batch(v, random_state=np.random.RandomState(s), batch_size=bs, return_utilities=True, method=method)
                acc.transitions += 1
                if not (np.array_equal(rv[0], r2[0]) and np.array_equal(rv[1], r2[1], equal_nan=True)):
                    acc.violation(subj, "depends_on_memory_layout", "strided input: indices %s rows %s; contiguous input: indices %s rows %s" % (
                        np.asarray(rv[0]).tolist(), np.asarray(rv[1]).tolist(), np.asarray(r2[0]).tolist(), np.asarray(r2[1]).tolist()), wit, replay=rep, size=len(vals))
            except ValueError:
                if not rejected_ok:
                    acc.violation(subj, "unexpected_exception", "strided input raised", wit, replay=rep, size=len(vals))
        if method == "max":
            # conformance: observe the real tie choices, replay them in the substituted environment
            tp = T.Tape()
            ro = call(np.random.RandomState(s), tp, "observe")
            if tp.unobservable:
                continue  # the real primitive returned a non-optimum: reported by the direct check above, not replayable
            rr = call(np.random.RandomState(s), T.Tape(tp.choices), "substitute")
            acc.traces_validated += 1
            if isinstance(ro, Exception) or isinstance(rr, Exception) or not (
                np.array_equal(ro[0], rr[0]) and np.array_equal(ro[0], r2[0]) and np.array_equal(ro[1], rr[1], equal_nan=True)
            ):
                acc.engine_error("C18 tie-level conformance failed for %s seed %d: %r vs %r" % (wit, s, ro, rr))


def _run_case(acc, case, nseeds, seed0):
    fn, shape, vals, p = case
    with warnings.catch_warnings():
        warnings.simplefilter("ignore")
        if fn.startswith("simple_batch"):
            _check_batch(acc, fn.split(":")[1], shape, vals, p, nseeds, seed0)
        else:
            _check_argfn(acc, fn, shape, vals, p, nseeds, seed0)


def run_shard(spec):
    T.install()
    acc = Acc()
    cs = _cases(spec["tier"])
    mine = cs[spec["part"]::spec["of"]]
    nseeds = bounds(spec["tier"])["real_seeds"]
    for i, case in enumerate(mine):
        _run_case(acc, case, nseeds, spec["seed"] * 1000)
        if i % 997 == 0:
            acc.sample({"primitive": case[0], "shape": case[1], "values": case[2], "param": case[3]}, limit=1)
    acc.states = len(acc.nontrivial)
    return acc


def replay(spec):
    T.install()
    acc = Acc()
    if spec["kind"] == "argfn":
        case = (spec["fn"], spec["shape"], spec["values"], spec["axis"])
    else:
        case = ("simple_batch:" + spec["method"], spec["shape"], spec["values"], spec["bs"])
    _run_case(acc, case, 4, 0)
    return [(s, k) for (s, k, _p) in acc.groups]
