"""C10 - stream update commits exactly what query simulated.

BFS over all chunked query/update histories (chunks of size 1..K over a
4-symbol alphabet, horizon N) of every stream strategy and budget manager.
On every transition: update(chunk, query(chunk)) must not raise, indices are
strictly increasing integers in range(len(chunk)), one utility per
candidate. For the chunk-invariant subjects every multi-instance transition
is compared with processing the same instances one at a time from the same
pre-state (same generator stream): decisions and resulting state must agree.
Because this is checked from every reachable state, every chunking of every
stream up to the horizon is covered (induction over the first deviating
chunk).
"""
import copy
import warnings

import numpy as np

from checks import stream_graph as G
from mc import fingerprint as F
from mc import tape as T
from mc.acc import Acc
from subjects import stream as SS

PROPERTY = "C10"
META = {
    "rule": "state = full fingerprint of the real object; transition = query+update of one chunk under one tape (+ the one-at-a-time "
    "twin for chunk-invariant subjects); non-trivial = every state except the initial one; distinct = distinct fingerprint",
    "assumptions": ["alphabet of 4 utilities / 4 candidate points, chunk size and horizon as in bounds",
                    "state agreement between chunkings is compared on floats rounded to 10 significant digits",
                    "nested default budget managers of the Cognitive*Ran/VarUn/FixUn strategies use a real seeded generator"],
}
UV = SS.UTIL_VALUES_C03


def bounds(tier):
    q = tier == "quick"
    return {"subjects": [s.name for s in SS.ALL], "budgets": [0.5] if q else [0.25, 0.5], "max_chunk": 2 if q else 3,
            "horizon": 4 if q else 6, "horizon_managers": 6 if q else 8, "max_states": 4000 if q else 30000,
            "rng_modes": ["model", "real"], "real_seeds": 1 if q else 3, "candidates_as_list": "baseline strategies (quick); all (thorough)"}


def shards(tier, seed):
    b = bounds(tier)
    out = []
    for s in SS.ALL:
        for bud in b["budgets"]:
            out.append({"tier": tier, "seed": seed, "subject": s.name, "budget": bud, "rng": "model"})
            for k in range(b["real_seeds"]):
                out.append({"tier": tier, "seed": seed, "subject": s.name, "budget": bud, "rng": "real", "rseed": seed * 10 + k})
    return out


def shard_cost(spec):
    s = SS.BY_NAME[spec["subject"]]
    return (1 if s.kind == "manager" else 5) * (3 if s.random and spec["rng"] == "model" else 1)


def judge_indices(idx, ut, n):
    out = []
    try:
        a = np.asarray(idx)
        vals = [int(x) for x in a.ravel()]
        if a.size and a.dtype.kind not in "iu":
            out.append(("indices_not_integer", "dtype %s" % a.dtype))
        if a.ndim > 1:
            out.append(("indices_not_1d", "shape %s" % (a.shape,)))
        if any(not (0 <= v < n) for v in vals):
            out.append(("index_out_of_range", "indices %s for %d candidates" % (vals, n)))
        if any(vals[i] >= vals[i + 1] for i in range(len(vals) - 1)):
            out.append(("indices_not_increasing", "indices %s" % vals))
    except Exception as e:
        out.append(("indices_unusable", "%r: %s" % (idx, e)))
    try:
        if len(ut) != n:
            out.append(("utilities_length", "%d utilities for %d candidates" % (len(ut), n)))
    except Exception as e:
        out.append(("utilities_unusable", str(e)))
    return out


def approx_fp(o):
    old = F.MODE["fdigits"]
    F.MODE["fdigits"] = 10
    try:
        return F.fp(o)
    finally:
        F.MODE["fdigits"] = old


def diff_attrs(a, b):
    old = F.MODE["fdigits"]
    F.MODE["fdigits"] = 10
    try:
        fa, fb = F.attr_fps(a), F.attr_fps(b)
    finally:
        F.MODE["fdigits"] = old
    return sorted(k for k in set(fa) | set(fb) if fa.get(k) != fb.get(k))


def changed_existing_attrs(pre, post):
    """attributes that existed before and have another value afterwards (lazily created attributes do not count)"""
    old = F.MODE["fdigits"]
    F.MODE["fdigits"] = 10
    try:
        fa, fb = F.attr_fps(pre), F.attr_fps(post)
    finally:
        F.MODE["fdigits"] = old
    return sorted(k for k in fa if k in fb and fa[k] != fb[k])


def _val(o, path):
    for p in path.split("."):
        o = getattr(o, p, None)
    return o


def check_subject(acc, subj, budget, rng_mode, b, tier, rseed):
    horizon = b["horizon_managers"] if subj.kind == "manager" else b["horizon"]
    cfg = {"subject": subj.name, "budget": budget, "rng": rng_mode, "seed": rseed}

    def rep(h2, extra=None):
        r = dict(cfg, history=[[c, list(t)] for c, t in h2])
        if extra:
            r.update(extra)
        return r

    def on_state(o, hist, n):
        if hist:
            acc.case((subj.name, budget, rng_mode, rseed, F.fp(o)))

    def on_transition(pre, chunk, tp, post, res, h2, n):
        acc.transitions += 1
        wit = dict(cfg, history=[[c, list(t)] for c, t in h2], alphabet={k: repr(v) for k, v in (UV if subj.kind == "manager" else SS.CAND_POINTS).items()})
        size = len(h2) * 10 + len(chunk)
        if res[0] == "exc":
            e = res[2]
            kind = "exception_in_%s:%s" % (res[1], type(e).__name__)
            acc.violation(subj.name, kind, "%s: %s [history %s]" % (type(e).__name__, str(e)[:200], [c for c, _ in h2]), wit,
                          {"exc": str(e)[:60], "chunk_gt1": len(chunk) > 1}, rep(h2), size)
            return False
        _, idx, ut = res
        if len(chunk) == 0:
            # nothing was observed: nothing may be granted and the state may not move
            ch = changed_existing_attrs(pre, post)
            if len(np.asarray(idx).ravel()) or ch:
                acc.violation(subj.name, "empty_chunk_changes_state", "query/update of an empty chunk returned %s and changed %s [history %s]" % (
                    list(np.asarray(idx).ravel()), ch[:4], [c for c, _ in h2]), wit, {}, rep(h2), size)
            return False
        for kind, detail in judge_indices(idx, ut, len(chunk)):
            acc.violation(subj.name, kind, detail + " [history %s]" % [c for c, _ in h2], wit, {}, rep(h2), size)
        acc.outcome((subj.name, budget, n, tuple(int(i) for i in np.asarray(idx).ravel())))
        if len(h2) == 2 and len(chunk) > 1 and len(acc.samples) < 2:
            acc.sample({"config": cfg, "history (chunk, tape answers)": [[c, list(t)] for c, t in h2], "queried_indices_of_last_chunk": [int(i) for i in np.asarray(idx).ravel()],
                        "utilities_of_last_chunk": [float(u) if u == u else None for u in np.asarray(ut, dtype=float).ravel()],
                        "alphabet": {k: repr(v) for k, v in (UV if subj.kind == "manager" else SS.CAND_POINTS).items()}})
        # candidates given as a list (array-like) must be accepted as well
        if (tier == "thorough" or subj.name in SS.BASELINES) and len(h2) <= 2:
            o2 = copy.deepcopy(pre)
            with T.ties(T.Tape(tp.choices)):
                try:
                    i2, u2 = G.do_query(subj, o2, chunk, UV)
                    G.do_update(subj, o2, chunk, i2, u2, UV, as_list=True)
                    acc.transitions += 1
                except Exception as e:
                    acc.violation(subj.name, "exception_in_update_with_list_candidates:" + type(e).__name__,
                                  "%s: %s" % (type(e).__name__, str(e)[:200]), wit, {"exc": str(e)[:60]}, rep(h2, {"as_list": True}), size)
        # chunking invariance
        if subj.chunk_invariant and len(chunk) > 1:
            o1 = copy.deepcopy(pre)
            picks = []
            ok = True
            with T.ties(T.Tape(tp.choices)):
                for j, sym in enumerate(chunk):
                    try:
                        i1, u1 = G.do_query(subj, o1, (sym,), UV)
                        G.do_update(subj, o1, (sym,), i1, u1, UV)
                    except Exception as e:
                        acc.violation(subj.name, "exception_one_at_a_time:" + type(e).__name__, str(e)[:200], wit, {}, rep(h2), size)
                        ok = False
                        break
                    if len(i1):
                        picks.append(j)
                    acc.transitions += 1
            if ok:
                acc.traces_validated += 1
                got = [int(i) for i in np.asarray(idx).ravel()]
                if got != picks:
                    acc.violation(subj.name, "decisions_depend_on_chunking",
                                  "chunk %s granted %s, one at a time granted %s [history %s]" % ("".join(chunk), got, picks, [c for c, _ in h2]),
                                  wit, {}, rep(h2), size)
                elif approx_fp(post) != approx_fp(o1):
                    d = diff_attrs(post, o1)
                    acc.violation(subj.name, "state_depends_on_chunking",
                                  "after chunk %s the state differs from one-at-a-time processing in %s: %s vs %s [history %s]" % (
                                      "".join(chunk), d[:4], [repr(_val(post, k))[:40] for k in d[:3]], [repr(_val(o1, k))[:40] for k in d[:3]],
                                      [c for c, _ in h2]), wit, {"attrs": ",".join(d[:4])}, rep(h2), size)
        return True

    with warnings.catch_warnings():
        warnings.simplefilter("ignore")
        r = G.bfs(subj, budget, rng_mode, b["max_chunk"], horizon, b["max_states"], UV, on_state, on_transition, seed=rseed,
                  max_tapes=300)
    acc.states += r["states"]
    if r["capped"]:
        acc.cap("cap hit for %s" % cfg)
    acc.sample({"config": cfg, "states": r["states"], "transitions": r["transitions"]}, limit=3)


def run_shard(spec):
    T.install()
    acc = Acc()
    subj = SS.BY_NAME[spec["subject"]]
    check_subject(acc, subj, spec["budget"], spec["rng"], bounds(spec["tier"]), spec["tier"], spec.get("rseed", 0))
    return acc


def replay(spec):
    """Re-run the history; the last step is re-judged with the full transition oracle."""
    T.install()
    acc = Acc()
    subj = SS.BY_NAME[spec["subject"]]
    budget = float(spec["budget"])
    hist = [(tuple(c), tuple(int(x) for x in t)) for c, t in spec["history"]]
    out = []
    with warnings.catch_warnings():
        warnings.simplefilter("ignore")
        obj, _ = G.replay_history(subj, budget, spec["rng"], hist[:-1], UV, seed=int(spec.get("seed", 0)))
        # re-run the last transition through the same oracle by a 1-step BFS from obj
        b = bounds("thorough")
        chunk, tape = hist[-1]
        pre = obj

        def run(tp):
            o = copy.deepcopy(pre)
            with T.ties(tp):
                try:
                    idx, ut = G.do_query(subj, o, chunk, UV)
                except Exception as e:
                    return o, ("exc", "query", e)
                try:
                    G.do_update(subj, o, chunk, idx, ut, UV)
                except Exception as e:
                    return o, ("exc", "update", e, idx, ut)
            return o, ("ok", idx, ut)

        tp = T.Tape(tape)
        post, res = run(tp)
        # reuse the oracle
        holder = {}

        class _A(Acc):
            pass

        a2 = Acc()
        # rebuild the closure environment
        import types

        def judge():
            cfg = {"subject": subj.name, "budget": budget, "rng": spec["rng"], "seed": int(spec.get("seed", 0))}
            size = 0
            if res[0] == "exc":
                e = res[2]
                out.append((subj.name, "exception_in_%s:%s" % (res[1], type(e).__name__)))
                return
            _, idx, ut = res
            if len(chunk) == 0:
                if len(np.asarray(idx).ravel()) or changed_existing_attrs(pre, post):
                    out.append((subj.name, "empty_chunk_changes_state"))
                return
            for kind, _d in judge_indices(idx, ut, len(chunk)):
                out.append((subj.name, kind))
            if spec.get("as_list") or subj.name in SS.BASELINES:
                o2 = copy.deepcopy(pre)
                with T.ties(T.Tape(tape)):
                    try:
                        i2, u2 = G.do_query(subj, o2, chunk, UV)
                        G.do_update(subj, o2, chunk, i2, u2, UV, as_list=True)
                    except Exception as e:
                        out.append((subj.name, "exception_in_update_with_list_candidates:" + type(e).__name__))
            if subj.chunk_invariant and len(chunk) > 1:
                o1 = copy.deepcopy(pre)
                picks = []
                with T.ties(T.Tape(tape)):
                    for j, sym in enumerate(chunk):
                        try:
                            i1, u1 = G.do_query(subj, o1, (sym,), UV)
                            G.do_update(subj, o1, (sym,), i1, u1, UV)
                        except Exception as e:
                            out.append((subj.name, "exception_one_at_a_time:" + type(e).__name__))
                            return
                        if len(i1):
                            picks.append(j)
                got = [int(i) for i in np.asarray(idx).ravel()]
                if got != picks:
                    out.append((subj.name, "decisions_depend_on_chunking"))
                elif approx_fp(post) != approx_fp(o1):
                    out.append((subj.name, "state_depends_on_chunking"))

        judge()
    return out
