"""C04 - budget managers never overspend.

Explicit-state BFS over the reachable states of each budget-enforcing
manager / baseline strategy: a transition is query + update of one chunk
(size 1..3) of utilities from {0, 0.5, 1, NaN} on a deep copy of the real
object; randomised managers draw from a StreamRNG whose every comparison
outcome is enumerated by the tape. Checked at every prefix length n:
granted(n) <= bound(n) of the statement, the mechanism invariant (a label is
granted only while the reference estimate of the spent budget is below the
budget) and agreement of the object's own estimate with the reference
recurrence.
"""
import copy
import itertools
import warnings
from collections import deque

import numpy as np

from mc import tape as T
from mc.acc import Acc
from mc.fingerprint import fp, fp_merge
from subjects import stream as SS

PROPERTY = "C04"
META = {
    "rule": "state = (full fingerprint of the real object, observed n, granted g); transition = query+update of one chunk under one "
    "tape; a state is non-trivial when n > 0; distinct = distinct state key",
    "assumptions": [
        "utility alphabet {0, 0.5, 1, NaN}; chunks of size <= 3; horizon as in bounds; budgets and windows as in bounds",
        "uniform draws are explored by region (one representative per interval between the thresholds they are compared with); "
        "normal draws by z in {-2, 0, 2}",
    ],
}
SUBJECTS = ["FixedUncertaintyBudgetManager", "VariableUncertaintyBudgetManager", "RandomVariableUncertaintyBudgetManager", "SplitBudgetManager",
            "RandomBudgetManager", "DensityBasedSplitBudgetManager", "PeriodicSampling", "StreamRandomSampling[no_exceed]"]


def bounds(tier):
    q = tier == "quick"
    return {
        "subjects": SUBJECTS,
        "budgets": [0.25, 0.5, 1.0] if q else [0.1, 0.25, 0.5, 1.0],
        "windows": [2, 4] if q else [1, 2, 4, 10],
        "utility_alphabet": ["0.0", "0.5", "1.0", "nan"],
        "max_chunk": 3 if q else 3,
        "max_chunk_random": 2,
        "horizon": 6 if q else 9,
        "horizon_random": 5 if q else 7,
        "horizon_exact": 12 if q else 30,
        "max_states_per_config": 60000,
        "real_seeds": 3 if q else 8,
        "real_stream_len": 5 if q else 6,
        "long_stream_len": 600 if q else 3000,
        "long_chunks": [1, 3],
        "long_streams": "every periodic utility stream with period <= 2 over the alphabet (real generator), bound judged at every prefix",
    }


def shards(tier, seed):
    miss = SS.check_complete()
    if miss:
        raise RuntimeError("stream subjects without descriptor: %s" % miss)
    b = bounds(tier)
    out = []
    for name in SUBJECTS:
        s = SS.BY_NAME[name]
        ws = b["windows"] if s.bound == "window" else [None]
        for bud in b["budgets"]:
            for w in ws:
                out.append({"tier": tier, "seed": seed, "subject": name, "budget": bud, "w": w})
    return out


def shard_cost(spec):
    s = SS.BY_NAME[spec["subject"]]
    return (3 if s.random else 1) * (2 if spec["budget"] < 0.5 else 1)


def _make(subj, budget, w, rng):
    if subj.bound == "window":
        import skactiveml.stream.budgetmanager as B
        import inspect

        cls = getattr(B, subj.name)
        kw = {"w": w}
        if "classes" in inspect.signature(cls.__init__).parameters:
            kw["classes"] = [0, 1]
        if "s" in inspect.signature(cls.__init__).parameters:
            kw["s"] = 0.5
        if "v" in inspect.signature(cls.__init__).parameters:
            kw["v"] = 0.3
        if "random_state" in inspect.signature(cls.__init__).parameters:
            kw["random_state"] = rng
        return cls(budget=budget, **kw)
    return subj.make(budget, rng)


def bound_value(subj, budget, w, n):
    if subj.bound == "window":
        return budget * n + n / w + budget * w + 1
    if subj.bound == "density":
        return budget * n + 1
    return budget * n


class Ref:
    """reference estimate of the spent budget (plain recurrences)"""

    def __init__(self, subj, budget, w):
        self.kind, self.b, self.w = subj.bound, budget, w
        self.n = 0
        self.g = 0
        self.u = 0.0

    def below_budget(self):
        if self.kind == "window":
            return self.u / self.w < self.b
        if self.kind == "density":
            return self.g / (self.n + 1) < self.b
        return (self.g + 1) <= self.b * (self.n + 1) + 1e-9

    def observe(self, granted):
        if self.kind == "window":
            self.u = self.u * ((self.w - 1) / self.w) + (1 if granted else 0)
        self.n += 1
        self.g += 1 if granted else 0


def step(subj, obj, chunk):
    idx, ut = subj.query(obj, chunk)
    subj.update(obj, chunk, idx, ut)
    return [int(i) for i in idx]


def judge_transition(subj, budget, w, ref, obj, chunk, idx):
    """advance the reference over the chunk; returns list of (kind, detail)"""
    out = []
    gset = set(idx)
    if sorted(gset) != sorted(idx) or any(i < 0 or i >= len(chunk) for i in idx):
        out.append(("malformed_indices", "indices %s for a chunk of %d" % (idx, len(chunk))))
        return out
    for i in range(len(chunk)):
        granted = i in gset
        if granted and not ref.below_budget():
            out.append(("grant_without_budget", "instance %d (stream position %d) granted although the reference estimate is not below the "
                        "budget (granted so far %d of %d, decayed count %.4f)" % (i, ref.n, ref.g, ref.n, ref.u)))
        ref.observe(granted)
        bv = bound_value(subj, budget, w, ref.n)
        if ref.g > bv + 1e-9:
            out.append(("bound_exceeded", "after %d instances %d labels granted > bound %.4f" % (ref.n, ref.g, bv)))
    # the object's own estimate agrees with the reference recurrence
    try:
        if subj.bound == "window":
            if abs(float(obj.u_t_) - ref.u) > 1e-9:
                out.append(("estimate_diverges", "u_t_=%r but reference recurrence gives %r" % (obj.u_t_, ref.u)))
        elif subj.bound == "density":
            if int(obj.t_) != ref.n or int(obj.u_) != ref.g:
                out.append(("estimate_diverges", "u_=%r t_=%r but observed %d granted %d" % (obj.u_, obj.t_, ref.n, ref.g)))
        else:
            if int(obj.observed_samples_) != ref.n or int(obj.queried_samples_) != ref.g:
                out.append(("estimate_diverges", "observed_samples_=%r queried_samples_=%r but observed %d granted %d" % (
                    obj.observed_samples_, obj.queried_samples_, ref.n, ref.g)))
    except AttributeError as e:
        out.append(("estimate_missing", str(e)))
    return out


def explore_config(acc, subj, budget, w, b, tier, seed):
    syms = "lmhn"
    horizon = b["horizon_exact"] if subj.bound == "exact" else (b["horizon_random"] if subj.random else b["horizon"])
    maxc = b["max_chunk_random"] if subj.random else b["max_chunk"]
    if subj.kind == "strategy":
        # candidates alphabet: utilities are irrelevant for the baselines, one symbol suffices
        alphabet = ["a"]
    else:
        alphabet = list(syms)
    ops = [c for k in range(1, maxc + 1) for c in itertools.product(alphabet, repeat=k)]
    if subj.kind == "manager":
        ops.append(())  # an empty chunk: nothing observed, nothing granted, estimate unchanged (judged, never enqueued)
    with T.ties(T.Tape()):
        obj0 = _make(subj, budget, w, subj.rng(budget))
    ref0 = Ref(subj, budget, w)
    frontier = deque([(obj0, ref0, ())])
    seen = {(fp_merge(obj0), 0, 0)}
    cfg = {"subject": subj.name, "budget": budget, "w": w}
    capped = False
    while frontier:
        obj, ref, hist = frontier.popleft()
        for chunk in ops:
            if ref.n + len(chunk) > horizon:
                continue

            def run(tp):
                o = copy.deepcopy(obj)
                with T.ties(tp):
                    try:
                        idx = step(subj, o, chunk)
                    except Exception as e:  # C10 territory, but an exception here is also a failure to enforce anything
                        return o, e
                return o, idx

            for tp, (o, idx) in T.explore(run, bound=99, max_runs=3000):
                acc.transitions += 1
                h2 = hist + (("".join(chunk), tuple(tp.choices)),)
                rep = dict(cfg, history=[[c, list(t)] for c, t in h2], mode="model")
                wit = dict(cfg, history=[[c, list(t)] for c, t in h2], utilities={k: repr(v) for k, v in SS.UTIL_VALUES.items()})
                if isinstance(idx, Exception):
                    acc.violation(subj.name, "exception:" + type(idx).__name__, str(idx)[:200], wit, {}, rep, size=len(h2) * 10 + len(chunk))
                    continue
                r2 = copy.copy(ref)
                for kind, detail in judge_transition(subj, budget, w, r2, o, chunk, idx):
                    acc.violation(subj.name, kind, detail + " [budget=%s w=%s history=%s]" % (budget, w, [c for c, _ in h2]), wit, {}, rep,
                                  size=len(h2) * 10 + len(chunk))
                if len(chunk) == 0:
                    continue
                key = (fp_merge(o), r2.n, r2.g)
                acc.outcome((subj.name, budget, w, r2.n, r2.g))
                if len(h2) == 3 and not acc.samples:
                    acc.sample({"config": cfg, "history (chunk of utilities l=0.0 m=0.5 h=1.0 n=NaN, tape answers)": [[c, list(t)] for c, t in h2],
                                "granted_in_last_chunk": idx, "observed": r2.n, "granted_total": r2.g, "bound": bound_value(subj, budget, w, r2.n)})
                if key not in seen:
                    if len(seen) >= b["max_states_per_config"]:
                        capped = True
                        continue
                    seen.add(key)
                    acc.case((subj.name, budget, w) + key)
                    frontier.append((o, r2, h2))
            if T.explore.capped:
                capped = True
    acc.states += len(seen)
    if capped:
        acc.cap("state/tape cap hit for %s" % cfg)
    if len(acc.samples) < 1:
        acc.sample({"config": cfg, "example_history": "chunks over utilities l=0.0 m=0.5 h=1.0 n=NaN", "states": len(seen)})
    # ---- real generator conformance: all 1-chunk streams up to a length, real seeds
    if subj.random:
        L = b["real_stream_len"]
        for s in range(seed * 10, seed * 10 + b["real_seeds"]):
            for stream in itertools.product(alphabet, repeat=L) if len(alphabet) > 1 else [tuple(alphabet) * L, tuple(alphabet) * (3 * L)]:
                obj = _make(subj, budget, w, s) if subj.bound == "window" or subj.kind == "manager" else subj.make(budget, s)
                ref = Ref(subj, budget, w)
                for sym in stream:
                    try:
                        idx = step(subj, obj, (sym,))
                    except Exception as e:
                        break
                    acc.transitions += 1
                    v = judge_transition(subj, budget, w, ref, obj, (sym,), idx)
                    for kind, detail in v:
                        acc.violation(subj.name, kind, detail + " [real seed %d stream %s]" % (s, "".join(stream)),
                                      dict(cfg, seed=s, stream="".join(stream)), {}, dict(cfg, mode="real", seed=s, stream="".join(stream)),
                                      size=1000 + len(stream))
                acc.traces_validated += 1


def long_streams(subj, b):
    """all periodic utility streams with period <= 2 (one symbol for the baseline strategies) x chunk sizes"""
    alphabet = ["a"] if subj.kind == "strategy" else list("lmhn")
    pats = [(a,) for a in alphabet] + [(a, c) for a in alphabet for c in alphabet if a != c]
    return [(p, k) for p in pats for k in b["long_chunks"]]


def run_long(subj, budget, w, pattern, chunk, n, seed):
    """one long linear history with the real generator; returns the (kind, detail) list of the first violating step"""
    obj = _make(subj, budget, w, seed) if subj.bound == "window" or subj.kind == "manager" else subj.make(budget, seed)
    ref = Ref(subj, budget, w)
    pos = 0
    steps = 0
    while pos < n:
        ch = tuple(pattern[(pos + j) % len(pattern)] for j in range(min(chunk, n - pos)))
        try:
            idx = step(subj, obj, ch)
        except Exception as e:
            return steps, [("exception:" + type(e).__name__, "%s at stream position %d" % (str(e)[:150], pos))]
        steps += 1
        v = judge_transition(subj, budget, w, ref, obj, ch, idx)
        if v:
            return steps, v
        pos += len(ch)
    return steps, []


def explore_long(acc, subj, budget, w, b, seed):
    """counters, accumulated estimates and window bookkeeping far beyond the horizon of the state graph: the bound of the statement must
    hold at every prefix of long periodic streams as well (overflowing or drifting counters only show after hundreds of grants)"""
    cfg = {"subject": subj.name, "budget": budget, "w": w}
    n = b["long_stream_len"]
    for pattern, chunk in long_streams(subj, b):
        steps, v = run_long(subj, budget, w, pattern, chunk, n, seed * 10)
        acc.transitions += steps
        acc.case((subj.name, budget, w, "long", pattern, chunk))
        acc.traces_validated += 1
        for kind, detail in v:
            acc.violation(subj.name, kind, detail + " [periodic stream %s x %d, chunks of %d, real seed %d]" % ("".join(pattern), n, chunk, seed * 10),
                          dict(cfg, stream="".join(pattern), length=n, chunk=chunk), {"long_stream": True},
                          dict(cfg, mode="long", seed=seed * 10, pattern=list(pattern), chunk=chunk, length=n), size=5000 + n)


def run_shard(spec):
    T.install()
    acc = Acc()
    subj = SS.BY_NAME[spec["subject"]]
    with warnings.catch_warnings():
        warnings.simplefilter("ignore")
        explore_config(acc, subj, spec["budget"], spec["w"], bounds(spec["tier"]), spec["tier"], spec["seed"])
        explore_long(acc, subj, spec["budget"], spec["w"], bounds(spec["tier"]), spec["seed"])
    return acc


def replay(spec):
    T.install()
    subj = SS.BY_NAME[spec["subject"]]
    budget, w = float(spec["budget"]), (None if spec["w"] is None else int(spec["w"]))
    out = []
    with warnings.catch_warnings():
        warnings.simplefilter("ignore")
        if spec.get("mode") == "long":
            _, v = run_long(subj, budget, w, tuple(spec["pattern"]), int(spec["chunk"]), int(spec["length"]), int(spec["seed"]))
            return [(subj.name, k) for k, _ in v]
        if spec.get("mode") == "real":
            obj = _make(subj, budget, w, int(spec["seed"])) if subj.bound == "window" or subj.kind == "manager" else subj.make(budget, int(spec["seed"]))
            ref = Ref(subj, budget, w)
            for sym in spec["stream"]:
                try:
                    idx = step(subj, obj, (sym,))
                except Exception as e:
                    out.append((subj.name, "exception:" + type(e).__name__))
                    break
                out += [(subj.name, k) for k, _ in judge_transition(subj, budget, w, ref, obj, (sym,), idx)]
            return out
        with T.ties(T.Tape()):
            obj = _make(subj, budget, w, subj.rng(budget))
        ref = Ref(subj, budget, w)
        for chunk, tape in spec["history"]:
            tp = T.Tape([int(x) for x in tape])
            with T.ties(tp):
                try:
                    idx = step(subj, obj, tuple(chunk))
                except Exception as e:
                    out.append((subj.name, "exception:" + type(e).__name__))
                    break
            out += [(subj.name, k) for k, _ in judge_transition(subj, budget, w, ref, obj, tuple(chunk), idx)]
    return out
