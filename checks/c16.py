"""C16 - label predicates agree and the label encoder round-trips.

All 1-D arrays of length 0..L and all 2-D arrays up to 2x2 over each
encoding's alphabet are enumerated for every (dtype, sentinel) combination;
the encoder is driven as a 3-step machine fit -> transform -> inverse_transform
(transform also on arrays other than the fitted one). Oracle: a boring
reference `is_missing` per sentinel and sorted-classes encoding.
"""
import itertools
import warnings

import numpy as np

from mc.acc import Acc

PROPERTY = "C16"
NAN = float("nan")

META = {
    "rule": "one case = (encoding, container, shape, values[, classes mode, second array]); trivial = the encoder is fitted on an empty "
    "list (float64) with a string sentinel (documented TypeError) or a 2-D array with a zero-length axis is rejected with the "
    "documented ValueError; every other TypeError is a violation; distinct = distinct tuple",
    "assumptions": ["arrays up to the stated length / shape; alphabets of 3 classes + sentinel", "sklearn LabelEncoder is trusted for sorting"],
}

ENCODINGS = [
    # name, values (first = sentinel value if representable), missing_label, dtype, has_missing
    ("float/nan", [NAN, 0.0, 1.0, 2.0], NAN, float),
    ("float/-1", [-1.0, 0.0, 1.0, 2.0], -1, float),
    ("float/-1.0", [-1.0, 0.0, 1.0, 2.0], -1.0, float),
    ("int/-1", [-1, 0, 1, 2], -1, int),
    ("int10/0", [0, 10, 20, 30], 0, int),
    ("int1/0", [0, 1, 2, 3], 0, int),  # the sentinel coincides with an encoded class index
    ("int/nan", [0, 1, 2], NAN, int),
    ("str/empty", ["", "a", "b", "c"], "", str),
    ("str/nan", ["nan", "a", "b", "c"], "nan", str),
    ("strshort/nan", ["a", "b", "c"], "nan", str),
    ("strlong/x", ["x", "aa", "bbb", "c"], "x", str),
    # every label is a one-character prefix of the (never occurring) sentinel: the array dtype <U1 is narrower than the sentinel
    ("strprefix/nan", ["n", "a", "y"], "nan", str),
    # sentinels given as numpy scalars (e.g. taken from an array: y.min())
    # integer label arrays with a float-typed sentinel of integral value
    ("int/-1.0", [-1, 0, 1, 2], -1.0, int),
    ("int/np.float64(0)", [0, 1, 2, 3], np.float64(0), int),
    ("int/np.int64(-1)", [-1, 0, 1, 2], np.int64(-1), int),
    ("float/np.float32(-1)", [-1.0, 0.0, 1.0, 2.0], np.float32(-1), float),
    ("obj/None-num", [None, 0, 1, 2], None, object),
    ("obj/None-str", [None, "a", "b", "c"], None, object),
    ("num/None", [0, 1, 2], None, int),
]


def bounds(tier):
    return {
        "encodings": [e[0] for e in ENCODINGS],
        "containers": ["ndarray", "list", "ndarray-F (Fortran-ordered 2-D arrays, strided 1-D views)"],
        "max_len_1d": 3 if tier == "quick" else 4,
        "shapes_2d": [[1, 1], [1, 2], [2, 1], [2, 2], [0, 2], [2, 0]] if tier == "quick" else [[1, 1], [1, 2], [2, 1], [2, 2], [3, 2], [0, 2], [2, 0]],
        "encoder_fit_len": 2 if tier == "quick" else 4,
        "encoder_fit_2x2": "all 2x2 arrays; quick: classes=None and transform arrays of length <= 1 only",
        "encoder_transform_len": 2,
        "classes_modes": ["None", "sorted", "unsorted"],
    }


def is_missing(v, ml):
    if isinstance(ml, float) and ml != ml:
        return isinstance(v, (float, np.floating)) and v != v
    if ml is None:
        return v is None
    if v is None:
        return False
    return v == ml


def mk(vals, shape, dtype, container):
    if container == "ndarray-F":
        # same values in another memory layout: Fortran order for 2-D arrays (e.g. `np.array([annot_1, annot_2]).T`), a strided view
        # of a longer buffer for 1-D arrays
        a = mk(vals, shape, dtype, "ndarray")
        if a.ndim == 2:
            return np.asfortranarray(a)
        buf = np.empty(2 * len(a) + 1, dtype=a.dtype)
        buf[...] = a[0] if len(a) else (0 if a.dtype.kind in "iuf" else None if a.dtype == object else "")
        v = buf[1::2][: len(a)]
        v[...] = a
        return v
    if container == "list":
        a = np.empty(len(vals), dtype=object)
        a[:] = vals
        return a.reshape(shape).tolist()
    if dtype is object:
        a = np.empty(len(vals), dtype=object)
        a[:] = vals
        return a.reshape(shape)
    if dtype is str:
        return np.array(vals, dtype=str).reshape(shape) if len(vals) else np.array([], dtype="<U1").reshape(shape)
    return np.array(vals, dtype=dtype).reshape(shape)


def shards(tier, seed):
    out = []
    for i, e in enumerate(ENCODINGS):
        for cont in ("ndarray", "list", "ndarray-F"):
            out.append({"tier": tier, "enc": i, "container": cont})
    return out


def _same(a, b, ml):
    if is_missing(a, ml) or is_missing(b, ml):
        return is_missing(a, ml) and is_missing(b, ml)
    return a == b


def check_predicates(acc, enc, cont, shape, vals):
    from skactiveml.utils import is_labeled, is_unlabeled, labeled_indices, unlabeled_indices

    name, alphabet, ml, dtype = enc
    if cont == "list" and len(shape) == 2 and shape[0] == 0:
        shape = (0,)  # an empty nested list carries no second dimension
    key = ("pred", name, cont, tuple(shape), tuple(repr(v) for v in vals))
    y = mk(list(vals), shape, dtype, cont)
    wit = {"encoding": name, "container": cont, "shape": list(shape), "values": [repr(v) for v in vals], "missing_label": repr(ml)}
    rep = {"kind": "pred", "enc": name, "container": cont, "shape": list(shape), "vals_idx": [alphabet.index(v) if v == v else 0 for v in vals]}
    size = len(vals)
    try:
        with warnings.catch_warnings():
            warnings.simplefilter("ignore")
            u = is_unlabeled(y, missing_label=ml)
            l = is_labeled(y, missing_label=ml)
            ui = unlabeled_indices(y, missing_label=ml)
            li = labeled_indices(y, missing_label=ml)
        acc.transitions += 4
    except TypeError as e:
        if isinstance(ml, np.generic):
            # a numpy scalar is the same sentinel as its Python value: it may only be rejected if that one is rejected too
            try:
                with warnings.catch_warnings():
                    warnings.simplefilter("ignore")
                    is_unlabeled(y, missing_label=ml.item())
                acc.case(key)
                acc.violation("is_unlabeled", "numpy_scalar_sentinel_rejected", "missing_label=%r is rejected (%s) although %r is accepted" % (
                    ml, str(e)[:120], ml.item()), wit, replay=rep, size=size)
                return
            except Exception:
                pass  # the Python value is rejected as well
        # every (sentinel, dtype) pair of the enumeration is a supported one: the predicates have no reason to reject it
        acc.case(key)
        acc.violation("is_unlabeled", "unexpected_rejection:TypeError", str(e)[:200], wit, replay=rep, size=size)
        return
    except ValueError as e:
        if len(shape) == 2 and shape[1] == 0 and "must be of shape" in str(e):
            acc.case(key, trivial=True)
            acc.reject("ValueError: 2-D array with empty axis")
            return
        acc.case(key)
        acc.violation("is_unlabeled", "exception:ValueError", str(e)[:200], wit, replay=rep, size=size)
        return
    except Exception as e:
        acc.case(key)
        acc.violation("is_unlabeled", "exception:" + type(e).__name__, str(e)[:200], wit, replay=rep, size=size)
        return
    acc.case(key)
    acc.traces_validated += 1
    ref = np.array([is_missing(v, ml) for v in vals], dtype=bool).reshape(shape)
    u = np.asarray(u)
    l = np.asarray(l)
    if u.dtype != bool or l.dtype != bool:
        acc.violation("is_unlabeled", "mask_not_boolean", "%s %s" % (u.dtype, l.dtype), wit, replay=rep, size=size)
    if u.shape != ref.shape or l.shape != ref.shape:
        acc.violation("is_unlabeled", "mask_shape", "mask shapes %s / %s for an input of shape %s" % (u.shape, l.shape, ref.shape), wit, replay=rep, size=size)
        return
    if not np.array_equal(u, ref):
        acc.violation("is_unlabeled", "wrong_mask", "is_unlabeled=%s expected %s" % (u.tolist(), ref.tolist()), wit, replay=rep, size=size)
    if not np.array_equal(l, ~u):
        acc.violation("is_labeled", "not_complement", "is_labeled=%s is_unlabeled=%s" % (l.tolist(), u.tolist()), wit, replay=rep, size=size)
    if len(shape) == 1:
        eu = [i for i in range(shape[0]) if ref[i]]
        el = [i for i in range(shape[0]) if not ref[i]]
        okshape = np.asarray(ui).ndim == 1 and np.asarray(li).ndim == 1
    else:
        eu = [[i, j] for i in range(shape[0]) for j in range(shape[1]) if ref[i, j]]
        el = [[i, j] for i in range(shape[0]) for j in range(shape[1]) if not ref[i, j]]
        okshape = True
    exp_idx_shape = (len(eu),) if len(shape) == 1 else (len(eu), 2)
    if np.asarray(ui).shape != exp_idx_shape or np.asarray(li).shape != ((len(el),) if len(shape) == 1 else (len(el), 2)):
        acc.violation("unlabeled_indices", "indices_shape", "index arrays of shape %s / %s for an input of shape %s with %d missing entries" % (
            np.asarray(ui).shape, np.asarray(li).shape, tuple(shape), len(eu)), wit, replay=rep, size=size)
    if not okshape or np.asarray(ui).tolist() != eu:
        acc.violation("unlabeled_indices", "wrong_indices", "%s expected %s" % (np.asarray(ui).tolist(), eu), wit, replay=rep, size=size)
    if not okshape or np.asarray(li).tolist() != el:
        acc.violation("labeled_indices", "wrong_indices", "%s expected %s" % (np.asarray(li).tolist(), el), wit, replay=rep, size=size)
    acc.outcome((name, tuple(ref.ravel().tolist())))


def check_encoder(acc, enc, cont, shape, vals, cmode, shape2, vals2):
    from skactiveml.utils import ExtLabelEncoder

    name, alphabet, ml, dtype = enc
    if cont == "list":
        shape = (0,) if (len(shape) == 2 and shape[0] == 0) else shape
        shape2 = (0,) if (len(shape2) == 2 and shape2[0] == 0) else shape2
    classes_all = [v for v in alphabet if not is_missing(v, ml)]
    if cmode == "None":
        classes = None
    elif cmode == "sorted":
        classes = sorted(classes_all)
    else:
        classes = [classes_all[-1]] + classes_all[:-1]
    key = ("enc", name, cont, tuple(shape), tuple(repr(v) for v in vals), cmode, tuple(shape2), tuple(repr(v) for v in vals2))
    wit = {"encoding": name, "container": cont, "fit_shape": list(shape), "fit_values": [repr(v) for v in vals], "classes": repr(classes),
           "transform_shape": list(shape2), "transform_values": [repr(v) for v in vals2], "missing_label": repr(ml)}
    rep = {"kind": "enc", "enc": name, "container": cont, "shape": list(shape), "vals_idx": [_ix(alphabet, v) for v in vals], "cmode": cmode,
           "shape2": list(shape2), "vals2_idx": [_ix(alphabet, v) for v in vals2]}
    size = len(vals) + len(vals2)
    y = mk(list(vals), shape, dtype, cont)
    y2 = mk(list(vals2), shape2, dtype, cont)
    present = sorted(set(v for v in vals if not is_missing(v, ml)))
    exp_classes = sorted(classes) if classes is not None else present
    if any((not is_missing(v, ml)) and v not in exp_classes for v in vals2):
        return  # transform of an unseen label is outside the property
    try:
        with warnings.catch_warnings():
            warnings.simplefilter("ignore")
            le = ExtLabelEncoder(classes=classes, missing_label=ml).fit(y)
            t1 = le.transform(y)
            t2 = le.transform(y2)
            r1 = le.inverse_transform(t1)
            r2 = le.inverse_transform(t2)
            ft = ExtLabelEncoder(classes=classes, missing_label=ml).fit_transform(y)
        acc.transitions += 6
    except TypeError as e:
        if isinstance(ml, np.generic):
            try:
                with warnings.catch_warnings():
                    warnings.simplefilter("ignore")
                    ExtLabelEncoder(classes=classes, missing_label=ml.item()).fit(y)
                acc.case(key)
                acc.violation("ExtLabelEncoder", "numpy_scalar_sentinel_rejected", "missing_label=%r is rejected (%s) although %r is accepted" % (
                    ml, str(e)[:120], ml.item()), wit, replay=rep, size=size)
                return
            except Exception:
                pass  # the Python value is rejected as well
        if cont == "list" and tuple(shape) == (0,) and isinstance(ml, str):
            # an empty list carries no dtype (numpy makes it float64), which is incompatible with a string sentinel: documented TypeError
            acc.case(key, trivial=True)
            acc.reject("TypeError: string sentinel with an empty list (float64) as fit data (check_missing_label)")
            return
        acc.case(key)
        acc.violation("ExtLabelEncoder", "unexpected_rejection:TypeError", str(e)[:200], wit, replay=rep, size=size)
        return
    except Exception as e:
        if (len(shape) == 2 and shape[1] == 0) or (len(shape2) == 2 and shape2[1] == 0):
            acc.case(key, trivial=True)
            acc.reject("2-D array with empty second axis rejected")
            return
        acc.case(key)
        acc.violation("ExtLabelEncoder", "exception:" + type(e).__name__, str(e)[:200], wit, replay=rep, size=size)
        return
    acc.case(key)
    acc.traces_validated += 1
    got_classes = list(le.classes_.tolist())
    if len(got_classes) != len(exp_classes) or any(a != b for a, b in zip(got_classes, exp_classes)):
        acc.violation("ExtLabelEncoder", "classes_not_sorted_unique", "classes_=%s expected %s" % (got_classes, exp_classes), wit, replay=rep, size=size)
        return
    for tag, vv, shp, t, r in (("fit-array", vals, shape, t1, r1), ("other-array", vals2, shape2, t2, r2)):
        exp = [-1 if is_missing(v, ml) else exp_classes.index(v) for v in vv]
        t = np.asarray(t)
        if t.dtype.kind not in "iu":
            acc.violation("ExtLabelEncoder", "codes_not_integer", "%s: dtype %s" % (tag, t.dtype), wit, replay=rep, size=size)
        if t.size != len(exp) or [int(x) for x in t.ravel()] != exp or (t.size and t.shape != tuple(shp)):
            acc.violation("ExtLabelEncoder", "wrong_codes", "%s: transform=%s expected %s" % (tag, t.tolist(), exp), wit, replay=rep, size=size)
            continue
        r = np.asarray(r)
        rl = r.ravel().tolist()
        if len(rl) != len(vv) or not all(_same(a, b, ml) for a, b in zip(rl, vv)) or (r.size and r.shape != tuple(shp)):
            acc.violation("ExtLabelEncoder", "round_trip", "%s: inverse_transform(transform(y))=%s, y=%s" % (tag, rl, [repr(v) for v in vv]), wit,
                          replay=rep, size=size)
    if not np.array_equal(np.asarray(ft), np.asarray(t1)):
        acc.violation("ExtLabelEncoder", "fit_transform_differs", "%s vs %s" % (np.asarray(ft).tolist(), np.asarray(t1).tolist()), wit, replay=rep, size=size)
    acc.outcome((name, tuple(got_classes), tuple(int(x) for x in np.asarray(t2).ravel())))


def _ix(alphabet, v):
    for i, a in enumerate(alphabet):
        if (a != a and v != v) or a is v or (a == v and type(a) == type(v)):
            return i
    return 0


def run_shard(spec):
    acc = Acc()
    b = bounds(spec["tier"])
    enc = ENCODINGS[spec["enc"]]
    cont = spec["container"]
    A = enc[1]
    n = 0
    for L in range(0, b["max_len_1d"] + 1):
        for vals in itertools.product(A, repeat=L):
            check_predicates(acc, enc, cont, (L,), vals)
            n += 1
            if n % 97 == 0:
                acc.sample({"encoding": enc[0], "container": cont, "values": [repr(v) for v in vals], "missing_label": repr(enc[2])}, limit=1)
    for shape in b["shapes_2d"]:
        for vals in itertools.product(A, repeat=shape[0] * shape[1]):
            check_predicates(acc, enc, cont, tuple(shape), vals)
    # encoder machine
    fit_arrays = [((L,), v) for L in range(0, b["encoder_fit_len"] + 1) for v in itertools.product(A, repeat=L)]
    fit_arrays += [((1, 2), v) for v in itertools.product(A, repeat=2)] + [((0, 2), ())]
    fit_2x2 = [((2, 2), v) for v in itertools.product(A, repeat=4)]
    tr_arrays = [((L,), v) for L in range(0, b["encoder_transform_len"] + 1) for v in itertools.product(A, repeat=L)]
    tr_arrays += [((2, 1), v) for v in itertools.product(A, repeat=2)] + [((0, 2), ())]
    tr_small = [((L,), v) for L in range(0, 2) for v in itertools.product(A, repeat=L)]
    for shape, vals in fit_arrays:
        for cmode in b["classes_modes"]:
            for shape2, vals2 in tr_arrays:
                check_encoder(acc, enc, cont, shape, vals, cmode, shape2, vals2)
    for shape, vals in fit_2x2:
        for cmode in (b["classes_modes"] if spec["tier"] == "thorough" else ["None"]):
            for shape2, vals2 in (tr_arrays if spec["tier"] == "thorough" else tr_small):
                check_encoder(acc, enc, cont, shape, vals, cmode, shape2, vals2)
    acc.states = len(acc.nontrivial)
    return acc


def replay(spec):
    acc = Acc()
    enc = [e for e in ENCODINGS if e[0] == spec["enc"]][0]
    vals = [enc[1][int(i)] for i in spec["vals_idx"]]
    if spec["kind"] == "pred":
        check_predicates(acc, enc, spec["container"], tuple(int(x) for x in spec["shape"]), vals)
    else:
        vals2 = [enc[1][int(i)] for i in spec["vals2_idx"]]
        check_encoder(acc, enc, spec["container"], tuple(int(x) for x in spec["shape"]), vals, spec["cmode"],
                      tuple(int(x) for x in spec["shape2"]), vals2)
    return [(s, k) for (s, k, _p) in acc.groups]
