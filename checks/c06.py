"""C06 - results are reproducible for a fixed random_state.

For every subject that accepts random_state (pool strategies incl. their
default clustering configurations, stream strategies, budget managers,
classifiers) on a small input grid: twin objects with equal parameters give
identical results, a repeated pool call gives the same result, and the
results are identical under every schedule of "other code draws from
np.random" - the process-global generator is re-seeded to one of three
poison states at every call boundary, and all assignments of poison states
to the boundaries of a 2-3 call history are enumerated. The real
rand_argmax / RandomState are used (no substitution). Consumption of the
global generator is recorded (state before/after) as steering evidence, not
as a verdict.
"""
import copy
import itertools
import warnings

import numpy as np

from mc import poolrun as PR
from mc.acc import Acc
from subjects import models as M
from subjects import pool as SP
from subjects import stream as SS

PROPERTY = "C06"
NAN = float("nan")
POISON = (11, 22, 33)
META = {
    "rule": "one case = (subject, seed, input, call history); every schedule (assignment of the 3 global-generator states to the call boundaries) is "
    "executed and all results are compared; trivial = the call is rejected with an exception under every schedule; distinct = tuple",
    "assumptions": ["3 poison states of numpy's global generator; all 9 (2 calls) / 8 of 27 (3 calls) assignments to call boundaries",
                    "strategy seeds {0, 1} and a RandomState instance; pools of 4 points",
                    "wrapped scikit-learn models get an explicit random_state from the harness"],
}


SHARED_KM = {"n_init": 1}


def default_cluster_subjects():
    S = SP.Subject
    return [
        S("TypiClust[cluster defaults]", "TypiClust", {}, None),
        S("ProbCover[cluster defaults]", "ProbCover", {}, None),
        S("Clue[cluster defaults]", "Clue", {}, "pwc", cost=2),
        S("DropQuery[cluster defaults]", "DropQuery", {}, "pwc", cost=2),
        # a caller-owned, non-empty cluster_algo_dict without random_state (the same dict object is shared by twin strategies)
        S("TypiClust[cluster n_init]", "TypiClust", {"cluster_algo_dict": SHARED_KM}, None),
        S("ProbCover[cluster n_init]", "ProbCover", {"cluster_algo_dict": SHARED_KM}, None),
        S("Clue[cluster n_init]", "Clue", {"cluster_algo_dict": SHARED_KM}, "pwc", cost=2),
        S("DropQuery[cluster n_init]", "DropQuery", {"cluster_algo_dict": SHARED_KM}, "pwc", cost=2),
    ]


def pool_subjects(tier):
    return [s for s in SP.SUBJECTS if s.quick or tier != "quick"] + default_cluster_subjects()


def bounds(tier):
    q = tier == "quick"
    return {"pool_subjects": [s.name for s in pool_subjects(tier)], "stream_subjects": [s.name for s in SS.ALL], "classifiers": [c.name for c in M.CLASSIFIERS],
            "regressors": [r.name for r in M.REGRESSORS], "pools": ["grid4", "dup4"], "labelings": "every 3rd labeling of {missing,0,1}^4" if q else "all",
            "batch_sizes": [1, 2], "seeds": [0, 1, "RandomState(5)"], "poison_states": list(POISON), "schedules": "all 9 assignments for 2 calls"}


def shards(tier, seed):
    out = [{"tier": tier, "what": "pool", "name": s.name} for s in pool_subjects(tier)]
    out += [{"tier": tier, "what": "stream", "name": s.name} for s in SS.ALL]
    out += [{"tier": tier, "what": "clf", "name": c.name} for c in M.CLASSIFIERS]
    out += [{"tier": tier, "what": "reg", "name": r.name} for r in M.REGRESSORS]
    return out


def shard_cost(spec):
    if spec["what"] == "pool":
        for s in pool_subjects("thorough"):
            if s.name == spec["name"]:
                return s.cost
    return 1


def _seed_obj(s):
    return np.random.RandomState(5) if s == "rs" else s


def _same(a, b):
    if a[0] != b[0]:
        return False
    if a[0] == "exc":
        return a[1] == b[1]
    return a[1] == b[1] and a[2].shape == b[2].shape and np.array_equal(a[2], b[2], equal_nan=True)


def _fmt(a):
    return "exception %s" % a[1] if a[0] == "exc" else "%s %s" % (a[1], np.round(a[2], 6).tolist())


def check_pool(acc, subj, tier):
    step = 3 if tier == "quick" else 1
    for pname in ("grid4", "dup4"):
        X = SP.pool(pname)
        for li, lab in enumerate(SP.labelings(len(X))):
            if li % step or not PR.unlabeled(lab):
                continue
            y = SP.make_y(lab, subj.task)
            for bs in (1, 2):
                for sd in ((0, 1, "rs") if (li // step) % 4 == 0 else (0,)):
                    key = (subj.name, pname, lab, bs, sd)

                    def call(qs, poison):
                        np.random.seed(poison)
                        st0 = np.random.get_state()[1][:4].tolist(), np.random.get_state()[2]
                        with warnings.catch_warnings():
                            warnings.simplefilter("ignore")
                            try:
                                r = qs.query(X.copy(), y.copy(), batch_size=bs, return_utilities=True, **subj.query_kwargs(X))
                                out = ("ok", [int(i) for i in np.asarray(r[0]).ravel()], np.asarray(r[1], dtype=float))
                            except Exception as e:
                                out = ("exc", type(e).__name__)
                        st1 = np.random.get_state()[1][:4].tolist(), np.random.get_state()[2]
                        if st0 != st1:
                            acc.count("global_generator_consumed:" + subj.name)
                        return out

                    results = []
                    for p1, p2 in itertools.product(POISON, repeat=2):
                        qs = subj.make(_seed_obj(sd))
                        r1 = call(qs, p1)
                        r2 = call(qs, p2)  # repeated call on the same object
                        results.append(((p1, p2), r1, r2))
                        acc.transitions += 2
                    twin = call(subj.make(_seed_obj(sd)), POISON[0])
                    acc.transitions += 1
                    ref = results[0][1]
                    trivial = all(r1[0] == "exc" and r2[0] == "exc" for _, r1, r2 in results)
                    acc.case(key, trivial=trivial)
                    if trivial:
                        continue
                    acc.traces_validated += 1
                    wit = {"subject": subj.name, "random_state": str(sd), "X": X.tolist(), "labels": list(lab), "batch_size": bs}
                    rep = {"what": "pool", "name": subj.name, "pool": pname, "labels": list(lab), "bs": bs, "seed": str(sd)}
                    size = sum(v is not None for v in lab) * 10 + bs
                    for (p1, p2), r1, r2 in results:
                        if not _same(r1, ref):
                            acc.violation(subj.name, "depends_on_global_generator", "np.random.seed(%d) before the call: %s; np.random.seed(%d): %s" % (
                                POISON[0], _fmt(ref), p1, _fmt(r1)), wit, {"batch_gt1": bs > 1}, rep, size)
                            break
                        if not _same(r2, r1):
                            kind = "repeated_call_differs" if p2 == p1 else "depends_on_global_generator"
                            acc.violation(subj.name, kind, "first call %s, repeated call (global state %d -> %d) %s" % (_fmt(r1), p1, p2, _fmt(r2)), wit,
                                          {"batch_gt1": bs > 1}, rep, size)
                            break
                    if not _same(twin, ref):
                        acc.violation(subj.name, "twin_objects_differ", "two fresh objects with equal parameters: %s vs %s" % (_fmt(ref), _fmt(twin)), wit, {}, rep, size)
                    acc.outcome((key, repr(ref[:2])))
            if li % 30 == 0:
                acc.sample({"subject": subj.name, "pool": pname, "labels": list(lab), "schedules": "9 assignments of global states %s to 2 calls" % (POISON,)}, limit=1)


def check_stream(acc, subj, tier):
    UV = SS.UTIL_VALUES_C03
    syms = "lmhn" if subj.kind == "manager" else "abcd"
    streams = [tuple(itertools.islice(itertools.cycle(p), 3)) for p in itertools.permutations(syms, 2)] + [tuple(syms[:3]), tuple(syms[1:])]
    chunkings = [[(s[0],), (s[1],), (s[2],)] if len(s) == 3 else [(s[0],), (s[1], s[2])] for s in streams]
    chunkings += [[(s[0], s[1]), (s[2],)] for s in streams if len(s) == 3]
    for budget in (0.25, 0.5):
        for sd in (0, 1):
            for chunks in chunkings:
                key = (subj.name, budget, sd, tuple(chunks))

                def run(schedule):
                    with warnings.catch_warnings():
                        warnings.simplefilter("ignore")
                        obj = subj.make(budget, sd)
                        out = []
                        try:
                            for ch, p in zip(chunks, schedule):
                                np.random.seed(p)
                                idx, ut = subj.query(obj, ch, UV)
                                np.random.seed(p + 1)
                                subj.update(obj, ch, idx, ut, UV)
                                out.append(([int(i) for i in idx], np.asarray(ut, dtype=float)))
                        except Exception as e:
                            out.append(("exc", type(e).__name__))
                        return out

                scheds = list(itertools.product(POISON, repeat=len(chunks)))
                if len(scheds) > 9:
                    scheds = scheds[::3] + [scheds[-1]]
                res = [run(s) for s in scheds]
                acc.transitions += 2 * len(chunks) * len(scheds)
                acc.case(key)
                acc.traces_validated += 1
                ref = res[0]
                wit = {"subject": subj.name, "budget": budget, "random_state": sd, "chunks": ["".join(c) for c in chunks]}
                rep = {"what": "stream", "name": subj.name}
                for s, r in zip(scheds, res):
                    same = len(r) == len(ref) and all((a[0] == b[0] and (isinstance(a[1], str) and a[1] == b[1] or (not isinstance(a[1], str) and np.array_equal(
                        a[1], b[1], equal_nan=True)))) for a, b in zip(r, ref))
                    if not same:
                        acc.violation(subj.name, "depends_on_global_generator", "schedule %s gives %s, schedule %s gives %s" % (
                            scheds[0], [x[0] for x in ref], s, [x[0] for x in r]), wit, {}, rep, len(chunks))
                        break
                acc.outcome((key, repr([x[0] for x in ref])))
    acc.sample({"subject": subj.name, "example": "3 chunks, global generator re-seeded before every query and update"}, limit=1)
    check_shared_manager(acc, subj, chunkings[:6], UV)


def check_shared_manager(acc, subj, chunkings, UV):
    """Twin strategies that were constructed with the SAME caller-owned, already used budget manager object (equal parameters): the
    strategy works on its own copy of the manager, so running one twin must not change what the other one returns."""
    import copy

    if subj.kind != "strategy":
        return
    for budget in (0.25, 0.5):
        for sd in (0, 1):
            with warnings.catch_warnings():
                warnings.simplefilter("ignore")
                proto = subj.make(budget, sd)
                if getattr(proto, "budget_manager", None) is None:
                    return
                # a donor strategy is run over one chunk; its fitted manager is the caller-owned, used manager
                donor = subj.make(budget, sd)
                try:
                    idx, ut = subj.query(donor, ("a", "b"), UV)
                    subj.update(donor, ("a", "b"), idx, ut, UV)
                    used = copy.deepcopy(donor.budget_manager_)
                except Exception:
                    continue
            for chunks in chunkings:
                key = (subj.name, "shared_manager", budget, sd, tuple(chunks))

                def run(obj):
                    out = []
                    with warnings.catch_warnings():
                        warnings.simplefilter("ignore")
                        try:
                            for ch in chunks:
                                np.random.seed(7)
                                idx, ut = subj.query(obj, ch, UV)
                                subj.update(obj, ch, idx, ut, UV)
                                out.append(([int(i) for i in idx], np.asarray(ut, dtype=float)))
                        except Exception as e:
                            out.append(("exc", type(e).__name__))
                    return out

                shared = copy.deepcopy(used)
                params = proto.get_params(deep=False)
                twins = [type(proto)(**dict(params, budget_manager=shared)) for _ in range(2)]
                ref_obj = type(proto)(**dict(params, budget_manager=copy.deepcopy(used)))
                res = [run(t) for t in twins] + [run(ref_obj)]
                acc.transitions += 6 * len(chunks)
                acc.case(key)
                acc.traces_validated += 1
                wit = {"subject": subj.name, "budget": budget, "random_state": sd, "chunks": ["".join(c) for c in chunks],
                       "how": "two strategies built with the same used budget manager object, run one after the other; third strategy built with a private copy"}
                rep = {"what": "stream", "name": subj.name}
                for nm, r in (("second twin", res[1]), ("strategy with a private copy of the manager", res[2])):
                    same = len(r) == len(res[0]) and all((a[0] == b[0] and (isinstance(a[1], str) and a[1] == b[1] or (not isinstance(a[1], str) and np.array_equal(
                        a[1], b[1], equal_nan=True)))) for a, b in zip(r, res[0]))
                    if not same:
                        acc.violation(subj.name, "twins_sharing_a_manager_differ", "first twin %s, %s %s" % ([x[0] for x in res[0]], nm, [x[0] for x in r]),
                                      wit, {}, rep, len(chunks))
                        break
                acc.outcome((key, repr([x[0] for x in res[0]])))


def check_model(acc, kind, subj, tier):
    X = np.array(M.TRAIN_POOLS["grid4"], dtype=float)
    multi = getattr(subj, "multi", False)
    if multi:
        X = X[:3]
    n = 6 if multi else 4
    labs = list(itertools.product((None, 0, 1), repeat=n))
    labs = [l for i, l in enumerate(labs) if i % (9 if multi else 3) == 0]
    for lab in labs:
        y = np.array([NAN if v is None else (float(v) if kind == "clf" else 1.5 * v) for v in lab])
        if multi:
            y = y.reshape(-1, 2)
        for sd in (0, 1):
            key = (subj.name, lab, sd)

            def run(p1, p2):
                with warnings.catch_warnings():
                    warnings.simplefilter("ignore")
                    try:
                        est = subj.make(classes=[0, 1], random_state=sd) if kind == "clf" else subj.make(random_state=sd)
                        np.random.seed(p1)
                        est.fit(X, y)
                        np.random.seed(p2)
                        if kind == "clf":
                            return ("ok", np.asarray(est.predict_proba(X), dtype=float), np.asarray(est.predict(X), dtype=float))
                        if getattr(subj, "probabilistic", False):
                            return ("ok", np.asarray(est.predict(X), dtype=float), np.asarray(est.sample_y(X, n_samples=2, random_state=3), dtype=float))
                        return ("ok", np.asarray(est.predict(X), dtype=float), np.zeros(1))
                    except Exception as e:
                        return ("exc", type(e).__name__)

            res = [((p1, p2), run(p1, p2)) for p1, p2 in itertools.product(POISON, repeat=2)]
            acc.transitions += 2 * len(res)
            ref = res[0][1]
            acc.case(key, trivial=all(r[0] == "exc" for _, r in res))
            if ref[0] == "exc" and all(r[0] == "exc" for _, r in res):
                continue
            acc.traces_validated += 1
            wit = {"estimator": subj.name, "random_state": sd, "X": X.tolist(), "y": [None if v is None else v for v in lab]}
            rep = {"what": kind, "name": subj.name}
            for s, r in res:
                same = r[0] == ref[0] and (r[0] == "exc" and r[1] == ref[1] or r[0] == "ok" and np.array_equal(r[1], ref[1], equal_nan=True) and np.array_equal(
                    r[2], ref[2], equal_nan=True))
                if not same:
                    acc.violation(subj.name, "depends_on_global_generator", "global states %s: %s; %s: %s" % (res[0][0], _m(ref), s, _m(r)), wit, {}, rep,
                                  sum(v is not None for v in lab))
                    break
            acc.outcome((key, ref[1].tobytes() if ref[0] == "ok" else ref[1]))
            # the same call sequence repeated on the SAME object: fit re-derives the generator from the seed, so the second round reproduces the first
            if kind == "clf" and ref[0] == "ok":
                with warnings.catch_warnings():
                    warnings.simplefilter("ignore")
                    try:
                        est = subj.make(classes=[0, 1], random_state=sd)
                        rounds = []
                        for _ in range(2):
                            est.fit(X, y)
                            rounds.append((np.asarray(est.predict_proba(X), dtype=float), np.asarray(est.predict(X), dtype=float)))
                        acc.transitions += 4
                        if not (np.array_equal(rounds[0][0], rounds[1][0], equal_nan=True) and np.array_equal(rounds[0][1], rounds[1][1], equal_nan=True)):
                            acc.violation(subj.name, "refit_of_the_same_object_differs", "fit/predict_proba/predict repeated on one object with an integer seed: "
                                          "first round %s, second round %s" % (rounds[0][1].tolist(), rounds[1][1].tolist()), wit, {}, rep,
                                          sum(v is not None for v in lab))
                    except Exception:
                        pass
    acc.sample({"estimator": subj.name, "schedules": "global generator re-seeded before fit and before predict, all 9 assignments"}, limit=1)


def _m(r):
    return "exception " + r[1] if r[0] == "exc" else "%s / %s" % (np.round(r[1], 5).tolist(), np.round(r[2], 5).tolist())


def run_shard(spec):
    acc = Acc()
    if spec["what"] == "pool":
        subj = [s for s in pool_subjects("thorough") if s.name == spec["name"]][0]
        check_pool(acc, subj, spec["tier"])
    elif spec["what"] == "stream":
        check_stream(acc, SS.BY_NAME[spec["name"]], spec["tier"])
    elif spec["what"] == "clf":
        check_model(acc, "clf", M.CLF_BY_NAME[spec["name"]], spec["tier"])
    else:
        check_model(acc, "reg", M.REG_BY_NAME[spec["name"]], spec["tier"])
    acc.states = len(acc.nontrivial)
    return acc


def replay(spec):
    acc = Acc()
    if spec["what"] == "pool":
        subj = [s for s in pool_subjects("thorough") if s.name == spec["name"]][0]
        check_pool(acc, subj, "quick")
    elif spec["what"] == "stream":
        check_stream(acc, SS.BY_NAME[spec["name"]], "quick")
    elif spec["what"] == "clf":
        check_model(acc, "clf", M.CLF_BY_NAME[spec["name"]], "quick")
    else:
        check_model(acc, "reg", M.REG_BY_NAME[spec["name"]], "quick")
    return [(s, k) for (s, k, _p) in acc.groups]
