"""C14 - a pool active-learning loop labels every sample exactly once.

Explicit-state exploration of the standard loop (query, reveal the labels
of the returned indices, repeat): a state is (labeling, strategy object kept
across cycles); a transition is one real query on a deep copy of the
strategy under one tie/choice tape (deviation bound) followed by the oracle
revealing labels - all oracle answers from {0,1} ({0,1.5}) per revealed
sample. Initial states are all labelings of the pool; batch sizes 1-3;
states are merged on (labeling, full fingerprint of the strategy).
Per-transition invariant: the query succeeds and returns exactly
min(batch_size, u) distinct, still unlabeled samples. Because revealed
samples never become unlabeled again and every reachable state is explored,
this implies for every run: no sample is queried twice and the pool is
exhausted after exactly ceil(u / batch_size) queries (also measured on every
explored path).
"""
import copy
import itertools
import math
import warnings
from collections import deque

import numpy as np

from mc import fingerprint as F
from mc import poolrun as PR
from mc import tape as T
from mc.acc import Acc
from subjects import pool as SP

PROPERTY = "C14"
META = {
    "rule": "state = (labeling, fingerprint of the strategy object carried across cycles); transition = (tape, oracle answers); non-trivial = "
    "states with at least one unlabeled sample; distinct = distinct (subject, pool, batch size, labeling, strategy fingerprint)",
    "assumptions": ["pools of 4 (quick) / 5 (thorough) points, oracle answers from two values, tie/choice tapes with deviation bound 1 / 2",
                    "rand_argmax/argmin replaced by their specification (discharged by C18)"],
}


def bounds(tier):
    q = tier == "quick"
    return {"subjects": [s.name for s in SP.SUBJECTS if s.quick or not q], "pools": ["far4", "dup4"] if q else ["far5", "dup5", "grid5", "line5"],
            "pools_expensive": ["dup4"] if q else ["dup5"], "batch_sizes": [1, 2, 3], "deviation_bound": 1 if q else 2, "max_tapes": 40 if q else 200,
            "oracle_answers": "all of {0,1}^k per revealed batch"}


def shards(tier, seed):
    b = bounds(tier)
    out = []
    for s in SP.SUBJECTS:
        if tier == "quick" and not s.quick:
            continue
        for p in (b["pools"] if s.cost < 3 else b["pools_expensive"]):
            for bs in b["batch_sizes"]:
                if s.cls == "ParallelUtilityEstimationWrapper" and bs > 1:
                    continue  # documented: only batch_size=1
                out.append({"tier": tier, "subject": s.name, "pool": p, "bs": bs})
    return out


def shard_cost(spec):
    return SP.BY_NAME[spec["subject"]].cost * (3 if spec["bs"] == 1 else 1)


def explore(acc, subj, pname, bs, b):
    X = SP.pool(pname)
    n = len(X)
    kw = subj.query_kwargs(X)
    init = [lab for lab in SP.labelings(n) if any(v is None for v in lab)]
    qs0 = subj.make(0)
    frontier = deque()
    seen = set()
    for lab in init:
        k = (lab, "fresh")
        seen.add(k)
        frontier.append((lab, qs0, (), sum(v is None for v in lab)))
    n_paths = 0
    while frontier:
        lab, qs, hist, u0 = frontier.popleft()
        u = PR.unlabeled(lab)
        y = SP.make_y(lab, subj.task)
        acc.case((subj.name, pname, bs, lab, F.fp(qs) if hist else "fresh"))

        def run(tp):
            q2 = copy.deepcopy(qs)
            np.random.seed(PR.GLOBAL_SEED)
            with warnings.catch_warnings():
                warnings.simplefilter("ignore")
                try:
                    with T.ties(tp), T.rng_override(PR.rng_factory):
                        idx, ut = q2.query(X.copy(), y.copy(), batch_size=bs, return_utilities=True, **copy.deepcopy(kw))
                    return q2, ("ok", idx, ut)
                except Exception as e:
                    return q2, ("exc", e)

        for tp, (q2, res) in T.explore(run, b["deviation_bound"], max_runs=b["max_tapes"]):
            acc.transitions += 1
            h2 = hist + ((list(lab), list(tp.choices)),)
            wit = {"subject": subj.name, "pool": pname, "X": X.tolist(), "batch_size": bs, "labels_before_query": list(lab),
                   "cycles_before": [{"labels": h[0], "tape": h[1]} for h in hist], "tape": list(tp.choices)}
            rep = {"subject": subj.name, "pool": pname, "bs": bs, "labels": list(lab), "history": [[h[0], h[1]] for h in hist], "tape": list(tp.choices)}
            size = len(hist) * 100 + sum(v is not None for v in lab) * 10 + bs
            preds = {"cycle": len(hist), "cold_start": all(v is None for v in lab), "n_unlabeled": len(u), "batch_gt1": min(bs, len(u)) > 1,
                     "dup_candidate_rows": len(set(tuple(X[i]) for i in u)) < len(u), "fresh_strategy": len(hist) == 0}
            if res[0] == "exc":
                e = res[1]
                acc.violation(subj.name, "query_fails:" + type(e).__name__, "cycle %d (labels %s): %s: %s" % (len(hist) + 1, list(lab), type(e).__name__,
                              str(e)[:200]), wit, dict(preds, exc=str(e)[:60]), rep, size)
                continue
            v = PR.judge_c01(res[1], u, bs, subj.n_selectable(len(u)))
            if v:
                preds = dict(preds, **PR.output_preds(res[2], u, len(X)))
            for kind, detail in v:
                acc.violation(subj.name, kind, "cycle %d (labels %s): %s" % (len(hist) + 1, list(lab), detail), wit, preds, rep, size)
            if v:
                continue
            acc.traces_validated += 1
            picks = [int(i) for i in np.asarray(res[1]).ravel()]
            acc.outcome((subj.name, pname, bs, lab, tuple(picks)))
            if len(hist) == 1 and not acc.samples:
                acc.sample({"subject": subj.name, "pool": pname, "X": X.tolist(), "batch_size": bs, "loop_history": [{"labels": h[0], "tape": h[1]} for h in hist] + [
                    {"labels": list(lab), "tape": list(tp.choices), "queried": picks}]})
            fq = F.fp_merge(q2)
            for ans in itertools.product((0, 1), repeat=len(picks)):
                l2 = list(lab)
                for i, a in zip(picks, ans):
                    l2[i] = a
                l2 = tuple(l2)
                if not any(x is None for x in l2):
                    n_paths += 1
                    nq = len(hist) + 1
                    if nq != math.ceil(u0 / bs) and subj.subset_size is None:
                        acc.violation(subj.name, "wrong_number_of_queries", "pool exhausted after %d queries, expected ceil(%d/%d)" % (nq, u0, bs), wit,
                                      preds, rep, size)
                    continue
                k = (l2, fq)
                if k not in seen:
                    seen.add(k)
                    frontier.append((l2, q2, h2, u0))
        if T.explore.capped:
            acc.count("tape_caps")
    acc.states += len(seen)
    acc.count("paths_to_exhaustion", n_paths)
    acc.sample({"subject": subj.name, "pool": pname, "batch_size": bs, "states": len(seen), "example_transition": "query under tape [] then reveal labels (0,1)"},
               limit=1)


def run_shard(spec):
    T.install()
    acc = Acc()
    subj = SP.BY_NAME[spec["subject"]]
    explore(acc, subj, spec["pool"], spec["bs"], bounds(spec["tier"]))
    return acc


def replay(spec):
    """re-drive the recorded loop history on a fresh strategy object"""
    T.install()
    subj = SP.BY_NAME[spec["subject"]]
    X = SP.pool(spec["pool"])
    bs = int(spec["bs"])
    kw = subj.query_kwargs(X)
    qs = subj.make(0)
    out = []
    steps = [(h[0], h[1]) for h in spec["history"]] + [(spec["labels"], spec["tape"])]
    for labl, tape in steps:
        lab = tuple(None if v is None else int(v) for v in labl)
        y = SP.make_y(lab, subj.task)
        np.random.seed(PR.GLOBAL_SEED)
        with warnings.catch_warnings():
            warnings.simplefilter("ignore")
            try:
                with T.ties(T.Tape([int(x) for x in tape])), T.rng_override(PR.rng_factory):
                    idx = qs.query(X.copy(), y.copy(), batch_size=bs, **copy.deepcopy(kw))
            except Exception as e:
                out.append((subj.name, "query_fails:" + type(e).__name__))
                break
        for kind, _d in PR.judge_c01(idx, PR.unlabeled(lab), bs, subj.n_selectable(len(PR.unlabeled(lab)))):
            out.append((subj.name, kind))
    return out
