"""C19 - index-based incremental refitting equals retraining from scratch.

BFS over operation histories of IndexClassifierWrapper (fit / partial_fit
with index sets, label overrides, use_base_clf / set_base_clf flags) for
every flag combination (use_speed_up, enforce_unique_samples,
ignore_partial_fit), with and without sample weights, wrapped classifiers
with (GaussianNB via SklearnClassifier) and without (ParzenWindowClassifier)
a native partial_fit. The wrapper cannot be deep-copied, so a state is its
history and is rebuilt by replay; states are merged on the fingerprint of
(idx_, y_, sample_weight_, base_*, clf_). In every state predict /
predict_proba / predict_freq on all indices are compared with a reference
model: the multiset of (index, label, weight) triples implied by the
history, on which a fresh clone of the wrapped classifier is trained (for a
native partial_fit: the fresh clone is driven through the same chunk
sequence). Histories with use_speed_up on and off are compared as well.
"""
import itertools
import warnings

import numpy as np
from sklearn.base import clone

from mc import fingerprint as F
from mc.acc import Acc

PROPERTY = "C19"
NAN = float("nan")
META = {
    "rule": "state = operation history on one wrapper (rebuilt by replay), merged on the fingerprint of its bookkeeping attributes; transition = one "
    "fit / partial_fit call; non-trivial = every history whose last operation succeeded; distinct = distinct (configuration, history)",
    "assumptions": ["4 samples, index sets of size <= 2 from a fixed menu, label overrides from {None, all-1, all-0}, depth 2 (quick) / 3 (thorough)",
                    "for a native partial_fit the reference is a fresh clone driven through the same chunk sequence (GaussianNB's incremental fit "
                    "differs numerically from its batch fit: scikit-learn behaviour)", "predictions compared with rtol 1e-9"],
}
X = np.array([[0.0], [1.0], [2.0], [4.0]])
Y = np.array([0.0, 1.0, NAN, 1.0])
W = np.array([1.0, 2.0, 0.5, 1.0])
IDX_MENU = [(0,), (1,), (2,), (3,), (0, 1), (2, 3), (1, 2), (0, 3)]
ALL = np.arange(4)
UNSORTED = np.array([3, 1, 1, 0])
PREFIT = [0, 3]  # training set of the classifier in the "prefit" configurations


def bounds(tier):
    q = tier == "quick"
    return {"wrapped": ["ParzenWindowClassifier", "ParzenWindowClassifier(gamma='mean')", "SklearnClassifier(GaussianNB)"], "flags": "all 8 combinations of use_speed_up x enforce_unique_samples x "
            "ignore_partial_fit (speed-up only for PWC)", "weights": [False, True], "index_sets": [list(i) for i in (IDX_MENU if not q else IDX_MENU[:6])],
            "label_overrides": ["None", "all 1", "all 0"] if not q else ["None", "all 1"], "sample_weight_overrides": "None; constant 3.0 (configurations with weights)", "depth": 3, "depth_note": "thorough: full menu at the first level, all index sets with stored labels / one override at the second, index sets [0],[3],[1,2] with stored labels at the third; quick: the third level uses a reduced menu (index sets [0],[1,2], stored labels, all flag combinations); prefit configurations (classifier fitted on samples [0,3] and stored as base model in __init__) use index sets [1],[2],[3],[0,1] in the quick tier",
            "max_states": 6000 if q else 40000}


def configs():
    out = []
    for clf in ("pwc", "gnb"):
        for speed in ((False, True) if clf == "pwc" else (False,)):
            for uniq in (False, True):
                for ign in ((True,) if clf == "pwc" else (False, True)):
                    for wts in (False, True):
                        out.append({"clf": clf, "speed": speed, "uniq": uniq, "ign": ign, "wts": wts})
    # Parzen window classifier whose bandwidth is resolved from the training data at every fit (gamma='mean')
    for uniq in (False, True):
        out.append({"clf": "pwcmean", "speed": False, "uniq": uniq, "ign": True, "wts": False})
    # wrapper built around an already fitted classifier that is also stored as base model (`set_base_clf=True` in __init__); only with a
    # native partial_fit (otherwise the wrapper documents that it cannot continue from a model whose training data it does not know)
    for uniq in (False, True):
        for wts in (False, True):
            out.append({"clf": "gnb", "speed": False, "uniq": uniq, "ign": False, "wts": wts, "prefit": True})
    return out


def shards(tier, seed):
    return [dict(c, tier=tier) for c in configs()]


def make_clf(name):
    if name == "pwc":
        from skactiveml.classifier import ParzenWindowClassifier

        return ParzenWindowClassifier(classes=[0, 1], metric_dict={"gamma": 0.5}, random_state=0)
    if name == "pwcmean":
        from skactiveml.classifier import ParzenWindowClassifier

        return ParzenWindowClassifier(classes=[0, 1], metric_dict={"gamma": "mean"}, random_state=0)
    from sklearn.naive_bayes import GaussianNB

    from skactiveml.classifier import SklearnClassifier

    return SklearnClassifier(GaussianNB(), classes=[0, 1], random_state=0)


def make_wrapper(cfg):
    from skactiveml.pool.utils import IndexClassifierWrapper

    clf = make_clf(cfg["clf"])
    if cfg.get("prefit"):
        with warnings.catch_warnings():
            warnings.simplefilter("ignore")
            clf.fit(X[PREFIT], Y[PREFIT], sample_weight=W[PREFIT]) if cfg["wts"] else clf.fit(X[PREFIT], Y[PREFIT])
    w = IndexClassifierWrapper(clf, X.copy(), Y.copy(), sample_weight=W.copy() if cfg["wts"] else None, set_base_clf=bool(cfg.get("prefit")),
                               ignore_partial_fit=cfg["ign"], enforce_unique_samples=cfg["uniq"], use_speed_up=cfg["speed"])
    if cfg["speed"]:
        w.precompute(ALL, ALL)
    return w


def ops_menu(tier, level=0, wts=False, prefit=False):
    b = bounds(tier)
    ys = [None, 1.0] if tier == "quick" else [None, 1.0, 0.0]
    sets = b["index_sets"]
    if prefit and tier == "quick":
        sets = sets[1:5]  # every operation is enabled from the start in the prefit configurations: smaller menu in the quick tier
    if tier == "quick" and level >= 2:
        # third level of the quick tier: reduced menu (every flag combination, three index sets, stored labels)
        sets, ys = [[0], [1, 2]], [None]
    if tier == "thorough" and level == 1:
        ys = [None, 1.0]  # second level of the thorough tier: all index sets, stored labels and one override
    if tier == "thorough" and level >= 2:
        sets, ys = [[0], [3], [1, 2]], [None]  # third level: reduced menu (every flag combination); a full third level is ~90 CPU-hours
    ops = []
    for idx in sets:
        for yv in ys:
            for sb in (False, True):
                ops.append(("fit", tuple(idx), yv, None, sb, None))
                for ub in (False, True):
                    ops.append(("partial_fit", tuple(idx), yv, ub, sb, None))
    if wts and level < 2:
        # explicit sample_weight overrides that differ from the constructor's weights (stored labels, all flag combinations)
        for idx in ([[0], [1, 2]] if tier == "quick" else sets[:4]):
            for sb in (False, True):
                ops.append(("fit", tuple(idx), None, None, sb, 3.0))
                for ub in (False, True):
                    ops.append(("partial_fit", tuple(idx), None, ub, sb, 3.0))
    return ops


def apply_op(w, op):
    kind, idx, yv, ub, sb, wv = op
    idx = np.array(idx)
    y = None if yv is None else np.full(len(idx), yv)
    sw = None if wv is None else np.full(len(idx), wv)
    with warnings.catch_warnings():
        warnings.simplefilter("ignore")
        if kind == "fit":
            w.fit(idx, y=y, sample_weight=sw, set_base_clf=sb)
        else:
            w.partial_fit(idx, y=y, sample_weight=sw, use_base_clf=ub, set_base_clf=sb)


class Ref:
    """reference model: multiset of triples (no native partial_fit) / chunk sequences (native partial_fit)"""

    def __init__(self, cfg):
        self.cfg = cfg
        self.native = cfg["clf"] == "gnb" and not cfg["ign"]
        self.cur = None  # list of (i, y, w) or list of chunks
        self.base = None
        if cfg.get("prefit"):
            self.cur = [self._triples(PREFIT, None)]
            self.base = [list(c) for c in self.cur]

    def _triples(self, idx, yv, wv=None):
        out = []
        for i in idx:
            out.append((i, Y[i] if yv is None else yv, (W[i] if wv is None else wv) if self.cfg["wts"] else None))
        return out

    def apply(self, op):
        """returns 'ok' | 'notfitted'"""
        kind, idx, yv, ub, sb, wv = op
        t = self._triples(idx, yv, wv)
        if kind == "fit":
            self.cur = [list(t)] if self.native else list(t)
        else:
            if ub:
                if self.base is None:
                    return "notfitted"
                self.cur = [list(c) for c in self.base] if self.native else list(self.base)
            elif self.cur is None:
                return "notfitted"
            if self.native:
                self.cur.append(list(t))
            else:
                if self.cfg["uniq"]:
                    self.cur = [x for x in self.cur if x[0] not in idx]
                self.cur = self.cur + t
        if sb:
            self.base = [list(c) for c in self.cur] if self.native else list(self.cur)
        return "ok"

    def predictions(self):
        clf = clone(make_clf(self.cfg["clf"]))
        with warnings.catch_warnings():
            warnings.simplefilter("ignore")
            if self.native:
                for j, chunk in enumerate(self.cur):
                    xi = X[[c[0] for c in chunk]]
                    yi = np.array([c[1] for c in chunk], dtype=float)
                    wi = np.array([c[2] for c in chunk], dtype=float) if self.cfg["wts"] else None
                    f = clf.fit if j == 0 else clf.partial_fit
                    f(xi, yi) if wi is None else f(xi, yi, sample_weight=wi)
            else:
                xi = X[[c[0] for c in self.cur]]
                yi = np.array([c[1] for c in self.cur], dtype=float)
                wi = np.array([c[2] for c in self.cur], dtype=float) if self.cfg["wts"] else None
                clf.fit(xi, yi) if wi is None else clf.fit(xi, yi, sample_weight=wi)
            out = {"proba": np.asarray(clf.predict_proba(X), dtype=float), "proba@unsorted": np.asarray(clf.predict_proba(X[UNSORTED]), dtype=float)}
            if hasattr(clf, "predict_freq"):
                out["freq"] = np.asarray(clf.predict_freq(X), dtype=float)
                out["freq@unsorted"] = np.asarray(clf.predict_freq(X[UNSORTED]), dtype=float)
            return out


def observe(w):
    with warnings.catch_warnings():
        warnings.simplefilter("ignore")
        # predictions are requested for all indices in order and for an unsorted index list with a repetition
        out = {"proba": np.asarray(w.predict_proba(ALL), dtype=float), "proba@unsorted": np.asarray(w.predict_proba(UNSORTED), dtype=float)}
        if w.clf.__class__.__name__ == "ParzenWindowClassifier":
            out["freq"] = np.asarray(w.predict_freq(ALL), dtype=float)
            out["freq@unsorted"] = np.asarray(w.predict_freq(UNSORTED), dtype=float)
        out["pred"] = np.asarray(w.predict(ALL), dtype=float)
        return out


def state_fp(w):
    # values and sharing structure of the bookkeeping attributes in one walk (an aliased base model has different futures)
    d = {k: w.__dict__.get(k) for k in ("idx_", "y_", "sample_weight_", "base_idx_", "base_y_", "base_sample_weight_", "clf_", "base_clf_")}
    return F.fp_merge(d)


def fmt(h):
    return " -> ".join("%s(%s%s%s%s%s)" % (o[0], list(o[1]), "" if o[2] is None else ", y=%g" % o[2], "" if o[5] is None else ", sample_weight=%g" % o[5],
                                            "" if not o[3] else ", use_base_clf", "" if not o[4] else ", set_base_clf") for o in h)


def explore(acc, cfg, tier):
    b = bounds(tier)
    ops = ops_menu(tier, 0, cfg["wts"])
    frontier = [()]
    seen = set()
    name = "IndexClassifierWrapper[%s%s%s%s%s]" % (cfg["clf"], ",speed_up" if cfg["speed"] else "", ",unique" if cfg["uniq"] else "",
                                                   ",ignore_partial_fit" if cfg["ign"] and cfg["clf"] == "gnb" else "", (",weights" if cfg["wts"] else "") + (",prefit" if cfg.get("prefit") else ""))
    capped = False
    for depth in range(b["depth"]):
        nxt = []
        ops = ops_menu(tier, depth, cfg["wts"], bool(cfg.get("prefit")))
        for hist in frontier:
            for op in ops:
                h2 = hist + (op,)
                # rebuild by replay
                w = make_wrapper(cfg)
                ref = Ref(cfg)
                ok = True
                try:
                    for o in hist:
                        apply_op(w, o)
                        ref.apply(o)
                except Exception:
                    ok = False
                if not ok:
                    continue
                acc.transitions += 1
                exp = ref.apply(op)
                wit = {"configuration": cfg, "X": X.tolist(), "y": [0, 1, None, 1], "sample_weight": W.tolist() if cfg["wts"] else None, "history": fmt(h2)}
                rep = {"cfg": cfg, "history": [[o[0], list(o[1]), o[2], o[3], o[4], o[5]] for o in h2]}
                size = len(h2) * 10 + sum(len(o[1]) for o in h2)
                try:
                    apply_op(w, op)
                    res = "ok"
                except Exception as e:
                    res = type(e).__name__
                    msg = str(e)[:150]
                if res != "ok":
                    if exp == "notfitted" and res == "NotFittedError":
                        acc.case((name, h2), trivial=True)
                        continue
                    acc.case((name, h2))
                    acc.violation(name, "operation_fails:" + res, "%s: %s: %s" % (fmt(h2), res, msg), wit, {"last": op[0], "exc": msg[:50]}, rep, size)
                    continue
                if exp == "notfitted":
                    acc.case((name, h2))
                    acc.violation(name, "no_error_without_model", "%s succeeded although no (base) model exists" % fmt(h2), wit, {"last": op[0]}, rep, size)
                    continue
                acc.case((name, h2))
                try:
                    got = observe(w)
                    want = ref.predictions()
                except Exception as e:
                    acc.violation(name, "prediction_fails:" + type(e).__name__, "%s: %s" % (fmt(h2), str(e)[:150]), wit, {"last": op[0]}, rep, size)
                    continue
                acc.traces_validated += 1
                for k in want:
                    if k in got and (got[k].shape != want[k].shape or not np.allclose(got[k], want[k], rtol=1e-9, atol=1e-12, equal_nan=True)):
                        acc.violation(name, "differs_from_retraining", "%s: wrapper %s=%s, a fresh classifier trained on the implied training set gives %s" % (
                            fmt(h2), k, np.round(got[k], 5).tolist(), np.round(want[k], 5).tolist()), wit, {"last": op[0], "output": k}, rep, size)
                        break
                acc.outcome((name, got["proba"].tobytes()))
                # merge key: implementation state x reference-model state; histories are merged only if both agree
                k = (state_fp(w), repr((ref.cur, ref.base)))
                if k not in seen:
                    if len(seen) >= b["max_states"]:
                        capped = True
                        continue
                    seen.add(k)
                    nxt.append(h2)
        frontier = nxt
    acc.states += len(seen)
    if capped:
        acc.cap("state cap for %s" % name)
    acc.sample({"configuration": cfg, "example_history": fmt((ops_menu(tier, 0, cfg["wts"])[0], ops_menu(tier, 0, cfg["wts"])[5])), "states": len(seen)}, limit=1)
    return name


def compare_speedup(acc, cfg, tier):
    """same histories with use_speed_up on / off"""
    if cfg["clf"] != "pwc" or not cfg["speed"]:
        return
    ops = ops_menu(tier, 0, cfg["wts"])
    cfg_off = dict(cfg, speed=False)
    hists = [(a,) for a in ops] + [(a, b_) for a in ops[::3] for b_ in ops[::2]]
    for h in hists:
        res = []
        for c in (cfg, cfg_off):
            w = make_wrapper(c)
            try:
                for o in h:
                    apply_op(w, o)
                res.append(("ok", observe(w)))
            except Exception as e:
                res.append(("exc", type(e).__name__))
        acc.transitions += 2
        a, b_ = res
        acc.case(("speedup", repr(cfg), h))
        name = "IndexClassifierWrapper[speed_up on/off]"
        wit = {"configuration": cfg, "history": fmt(h)}
        rep = {"cfg": cfg, "history": [[o[0], list(o[1]), o[2], o[3], o[4], o[5]] for o in h], "speedcmp": True}
        if a[0] != b_[0] or (a[0] == "exc" and a[1] != b_[1]):
            acc.violation(name, "speed_up_changes_outcome", "%s: with speed-up %s, without %s" % (fmt(h), a[0] if a[0] == "ok" else a[1], b_[0] if b_[0] == "ok" else b_[1]),
                          wit, {}, rep, len(h))
        elif a[0] == "ok":
            acc.traces_validated += 1
            for k in a[1]:
                if a[1][k].shape != b_[1][k].shape or not np.allclose(a[1][k], b_[1][k], rtol=1e-9, atol=1e-12, equal_nan=True):
                    acc.violation(name, "speed_up_changes_prediction", "%s: %s with speed-up %s, without %s" % (fmt(h), k, np.round(a[1][k], 5).tolist(),
                                  np.round(b_[1][k], 5).tolist()), wit, {}, rep, len(h))
                    break


def run_shard(spec):
    acc = Acc()
    cfg = {k: spec[k] for k in ("clf", "speed", "uniq", "ign", "wts")}
    if spec.get("prefit"):
        cfg["prefit"] = True
    explore(acc, cfg, spec["tier"])
    compare_speedup(acc, cfg, spec["tier"])
    return acc


def _name(cfg):
    return "IndexClassifierWrapper[%s%s%s%s%s]" % (cfg["clf"], ",speed_up" if cfg["speed"] else "", ",unique" if cfg["uniq"] else "",
                                                   ",ignore_partial_fit" if cfg["ign"] and cfg["clf"] == "gnb" else "", (",weights" if cfg["wts"] else "") + (",prefit" if cfg.get("prefit") else ""))


def replay(spec):
    """targeted replay of one recorded history (the explorer is not needed)"""
    cfg = spec["cfg"]
    cfg = {"clf": cfg["clf"], "speed": bool(cfg["speed"]), "uniq": bool(cfg["uniq"]), "ign": bool(cfg["ign"]), "wts": bool(cfg["wts"]),
           "prefit": bool(cfg.get("prefit"))}
    hist = [(o[0], tuple(int(i) for i in o[1]), None if o[2] is None else float(o[2]), (None if o[3] is None else bool(o[3])), bool(o[4]),
             None if len(o) < 6 or o[5] is None else float(o[5])) for o in spec["history"]]
    out = []
    if spec.get("speedcmp"):
        res = []
        for c in (cfg, dict(cfg, speed=False)):
            w = make_wrapper(c)
            try:
                for o in hist:
                    apply_op(w, o)
                res.append(("ok", observe(w)))
            except Exception as e:
                res.append(("exc", type(e).__name__))
        a, b_ = res
        name = "IndexClassifierWrapper[speed_up on/off]"
        if a[0] != b_[0] or (a[0] == "exc" and a[1] != b_[1]):
            out.append((name, "speed_up_changes_outcome"))
        elif a[0] == "ok" and any(a[1][k].shape != b_[1][k].shape or not np.allclose(a[1][k], b_[1][k], rtol=1e-9, atol=1e-12, equal_nan=True) for k in a[1]):
            out.append((name, "speed_up_changes_prediction"))
        return out
    name = _name(cfg)
    w = make_wrapper(cfg)
    ref = Ref(cfg)
    for o in hist[:-1]:
        apply_op(w, o)
        ref.apply(o)
    op = hist[-1]
    exp = ref.apply(op)
    try:
        apply_op(w, op)
        res = "ok"
    except Exception as e:
        res = type(e).__name__
    if res != "ok":
        if not (exp == "notfitted" and res == "NotFittedError"):
            out.append((name, "operation_fails:" + res))
        return out
    if exp == "notfitted":
        return [(name, "no_error_without_model")]
    try:
        got, want = observe(w), ref.predictions()
    except Exception as e:
        return [(name, "prediction_fails:" + type(e).__name__)]
    for k in want:
        if k in got and (got[k].shape != want[k].shape or not np.allclose(got[k], want[k], rtol=1e-9, atol=1e-12, equal_nan=True)):
            out.append((name, "differs_from_retraining"))
            break
    return out
