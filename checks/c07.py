"""C07 - multi-annotator query returns distinct, available sample-annotator pairs.

SingleAnnotatorWrapper around RandomSampling / UncertaintySampling (and more
inner strategies in the thorough tier) and IntervalEstimationThreshold on 3
samples x 2 annotators: all 2^6 missing patterns with two label fillings for
the default mode, and for the explicit modes all annotator index subsets,
all candidate index subsets, all boolean availability matrices (incl. empty
rows) and feature-row candidates; batch sizes 1..pairs+1,
n_annotators_per_sample in {1,2,3}; tie tapes. Oracle: reference model of
the available pairs; termination by a lasso detector on the
annotator-assignment loop (a repeated loop state of a deterministic loop is a
proof of non-termination) plus a time horizon.
"""
import itertools
import sys
import warnings

import numpy as np

from mc import poolrun as PR
from mc import tape as T
from mc.acc import Acc
from mc.guard import Horizon, Lasso, time_limit
from subjects import pool as SP

PROPERTY = "C07"
NAN = float("nan")
META = {
    "rule": "one case = (strategy, label matrix, candidates spec, annotators spec, batch_size, n_annotators_per_sample); all tie tapes up to the "
    "deviation bound are run; trivial = no available pair, or (IntervalEstimationThreshold) an availability pattern outside its "
    "documented domain (some but not all annotators available for a candidate sample); distinct = tuple",
    "assumptions": ["3 samples x 2 annotators (thorough: also 4 x 2), features [[0],[1],[3]]", "A_perf given (ties explored by tape) and A_perf=None "
                    "(seeded random annotator utilities)", "the loop body of _n_to_assign_annotators is deterministic (lasso = non-termination)"],
}
X3 = np.array([[0.0], [1.0], [3.0]])
X4 = np.array([[0.0], [1.0], [3.0], [4.0]])
FOREIGN = np.array([[9.0]])


def bounds(tier):
    q = tier == "quick"
    return {"strategies": ["SingleAnnotatorWrapper[RandomSampling]", "SingleAnnotatorWrapper[UncertaintySampling[entropy]]", "IntervalEstimationThreshold"] + (
        [] if q else ["SingleAnnotatorWrapper[ProbabilisticAL]", "SingleAnnotatorWrapper[CoreSet]", "SingleAnnotatorWrapper[GreedySamplingX]"]),
        "samples": 3, "annotators": 2, "label_matrices": "all 64 missing patterns x 2 fillings (default mode); 4 matrices for explicit modes",
        "annotator_specs": "None; index subsets [0],[1],[0,1]; all boolean matrices", "candidate_specs": "None; all non-empty index subsets; "
        "feature rows of subsets (+ foreign row)", "batch_sizes": "1..min(pairs+1, 5)" if q else "1..pairs+1",
        "n_annotators_per_sample": [1, 2, [2], [1, 2]] if q else [1, 2, 3, [2], [1, 2], [2, 1, 1, 1, 1, 1, 1]],
        "n_annotators_per_sample_note": "lists are per-rank preferences (the last entry is repeated); for them the per-sample count oracle is not applied", "deviation_bound": 1, "A_perf": ["[0.5,0.5] (ties)", "None (seeded random)", "[-3.0,0.5] (negative scores, gap > 1)"]}


def subjects(tier):
    return bounds(tier)["strategies"]


def shards(tier, seed):
    out = []
    for s in subjects(tier):
        for part in range(8):
            out.append({"tier": tier, "strategy": s, "part": part, "of": 8})
    return out


# ---------------------------------------------------------------------------
def make_strategy(name):
    from skactiveml.pool.multiannotator import IntervalEstimationThreshold, SingleAnnotatorWrapper

    if name == "IntervalEstimationThreshold":
        return IntervalEstimationThreshold(random_state=0), {"clf": _clf()}, None
    inner_name = name[len("SingleAnnotatorWrapper["):-1]
    inner = SP.BY_NAME[inner_name]
    return SingleAnnotatorWrapper(inner.make(0), random_state=0), None, inner


def inner_kwargs(inner, X):
    return {} if inner is None else inner.query_kwargs(X)


def _clf():
    from skactiveml.classifier.multiannotator import AnnotatorLogisticRegression

    return AnnotatorLogisticRegression(classes=[0, 1], max_iter=10, random_state=0)


def available_pairs(y, cand, annot, n_cand_rows=None):
    """reference model (docstring semantics); returns set of (row, annotator) in the index space of the result"""
    n, m = y.shape
    if cand is None:
        rows = list(range(n))
    elif isinstance(cand, tuple) and cand[0] == "rows":
        rows = list(range(n_cand_rows))
    else:
        rows = list(cand)
    if annot is None:
        if cand is None:
            return {(i, a) for i in range(n) for a in range(m) if np.isnan(y[i, a])}
        return {(r, a) for r in rows for a in range(m)}
    annot = np.asarray(annot)
    if annot.ndim == 1:
        return {(r, int(a)) for r in rows for a in annot}
    return {(rows[i], a) for i in range(len(rows)) for a in range(m) if bool(annot[i, a])}


class LoopWatch:
    """sys.settrace based lasso detector for SingleAnnotatorWrapper._n_to_assign_annotators"""

    def __init__(self):
        import inspect

        from skactiveml.pool.multiannotator import SingleAnnotatorWrapper

        fn = SingleAnnotatorWrapper._n_to_assign_annotators
        self.code = fn.__code__
        src, start = inspect.getsourcelines(fn)
        self.while_line = None
        for i, l in enumerate(src):
            if l.strip().startswith("while "):
                self.while_line = start + i
        self.iterations = 0

    def __enter__(self):
        self.old = sys.gettrace()
        seen = set()
        watch = self

        def local(frame, event, arg):
            if event == "line" and frame.f_lineno == watch.while_line:
                loc = frame.f_locals
                st = (tuple(int(v) for v in np.asarray(loc.get("annot_per_sample")).ravel()), int(loc.get("n_annotator_sample_pairs")))
                watch.iterations += 1
                if st in seen:
                    raise Lasso("loop state %r repeated at _wrapper.py:%d" % (st, watch.while_line))
                seen.add(st)
            return local

        def tracer(frame, event, arg):
            if event == "call" and frame.f_code is watch.code:
                seen.clear()
                return local
            return None

        sys.settrace(tracer)
        return self

    def __exit__(self, *a):
        sys.settrace(self.old)


def run_query(qs, extra, X, y, cand_arg, annot_arg, bs, nps, a_perf, tape, watch=True, inner=None):
    np.random.seed(PR.GLOBAL_SEED)
    kw = dict(extra or {})
    kw.update(inner_kwargs(inner, X))
    if nps is not None and extra is None:
        kw["n_annotators_per_sample"] = nps
        if a_perf is not None:
            kw["A_perf"] = np.array(a_perf)
    with warnings.catch_warnings():
        warnings.simplefilter("ignore")
        try:
            with T.ties(tape), T.rng_override(PR.rng_factory), time_limit(20.0):
                if watch and extra is None:
                    with LoopWatch():
                        r = qs.query(X.copy(), y.copy(), candidates=cand_arg, annotators=annot_arg, batch_size=bs, return_utilities=True, **kw)
                else:
                    r = qs.query(X.copy(), y.copy(), candidates=cand_arg, annotators=annot_arg, batch_size=bs, return_utilities=True, **kw)
            return ("ok", np.asarray(r[0]), np.asarray(r[1], dtype=float))
        except Lasso as e:
            return ("lasso", str(e))
        except Horizon as e:
            return ("timeout", str(e))
        except T.Divergence:
            raise
        except Exception as e:
            return ("exc", e)


def judge(idx, U, avail, bs, n_rows, m, nps, avail_per_row):
    out = []
    k = min(bs, len(avail))
    if idx.ndim != 2 or idx.shape[1] != 2 or idx.dtype.kind not in "iu":
        return [("result_shape", "indices have shape %s dtype %s, expected (k, 2) integers" % (idx.shape, idx.dtype))]
    pairs = [(int(a), int(b)) for a, b in idx]
    if len(pairs) != k:
        out.append(("wrong_number_of_pairs", "returned %d pairs %s, expected min(batch_size=%d, available=%d)" % (len(pairs), pairs, bs, len(avail))))
    if len(set(pairs)) != len(pairs):
        out.append(("duplicate_pair", "pairs %s" % pairs))
    bad = [p for p in pairs if p not in avail]
    if bad:
        out.append(("unavailable_pair_selected", "pairs %s are not available (available: %s)" % (bad, sorted(avail))))
    if U.shape != (len(pairs), n_rows, m):
        out.append(("utilities_shape", "utilities shape %s, expected %s" % (U.shape, (len(pairs), n_rows, m))))
    else:
        for i in range(len(pairs)):
            sel = set(avail) - set(pairs[:i])
            nanpos = {(int(a), int(b)) for a, b in np.argwhere(np.isnan(U[i]))}
            expect = {(r, a) for r in range(n_rows) for a in range(m)} - sel
            # the statement is one-directional: unavailable and earlier pairs are NaN (other pairs may be NaN as well)
            missing = sorted(expect - nanpos)
            if missing:
                out.append(("number_at_unavailable_pair", "step %d: numbers at unavailable / already selected pairs %s (picks %s)" % (i, missing, pairs)))
                break
            if pairs[i] in sel and pairs[i] in nanpos:
                out.append(("selected_pair_has_nan_utility", "step %d: selected pair %s has NaN utility" % (i, pairs[i],)))
                break
    if nps is not None and not isinstance(nps, (list, tuple)) and not bad and len(pairs) == k:
        cnt = {}
        for r, a in pairs:
            cnt[r] = cnt.get(r, 0) + 1
        supply = sum(min(nps, avail_per_row.get(r, 0)) for r in cnt)
        if supply >= k and any(c > nps for c in cnt.values()):
            out.append(("too_many_annotators_per_sample", "requested %d per sample, got %s although the chosen samples can supply %d >= %d pairs at that rate" % (
                nps, cnt, supply, k)))
    return out


def gen_cases(name, tier):
    """(y, cand_spec, annot_spec) triples"""
    n, m = 3, 2
    pats = list(itertools.product((0, 1), repeat=n * m))
    ys = []
    for p in pats:
        for fill in (0, 1):
            y = np.array([[NAN if p[i * m + a] else float((i + a) % 2 if fill else 0) for a in range(m)] for i in range(n)])
            ys.append(y)
    few = [ys[0], ys[2 * 0b101010 + 1], ys[2 * 63], ys[2 * 0b000111]]
    out = []
    for y in ys:
        out.append((y, None, None))
    ann_idx = [[0], [1], [0, 1]]
    mats = [np.array(b, dtype=bool).reshape(n, m) for b in itertools.product((False, True), repeat=n * m)]
    for y in few:
        for a in ann_idx:
            out.append((y, None, np.array(a)))
        for A in mats:
            out.append((y, None, A))
        # the same availability given as an integer 0/1 matrix (array-like that is coerced to bool by validation)
        for A in mats[1::5]:
            out.append((y, None, A.astype(int)))
            out.append((y, [0, 1, 2], A.astype(int)))
        for r in range(1, n + 1):
            for c in itertools.combinations(range(n), r):
                out.append((y, list(c), None))
                for a in ann_idx:
                    out.append((y, list(c), np.array(a)))
                for b in itertools.product((False, True), repeat=len(c) * m):
                    out.append((y, list(c), np.array(b, dtype=bool).reshape(len(c), m)))
                # feature rows
                for foreign in (False, True):
                    spec = ("rows", list(c), foreign)
                    out.append((y, spec, None))
                    out.append((y, spec, np.array([1])))
                    nr = len(c) + (1 if foreign else 0)
                    if nr <= 2:
                        for b in itertools.product((False, True), repeat=nr * m):
                            out.append((y, spec, np.array(b, dtype=bool).reshape(nr, m)))
    return out


def run_case(acc, name, y, cand, annot, bs, nps, a_perf, bound):
    X = X3
    m = y.shape[1]
    qs, extra, inner = make_strategy(name)
    if isinstance(cand, tuple):
        rows = X[cand[1]]
        if cand[2]:
            rows = np.vstack([rows, FOREIGN])
        cand_arg, n_rows = rows, len(rows)
    else:
        cand_arg, n_rows = (None if cand is None else np.array(cand)), len(X)
    avail = available_pairs(y, cand, annot, n_rows if isinstance(cand, tuple) else None)
    key = (name, y.tobytes(), repr(cand), None if annot is None else (annot.shape, str(annot.dtype), annot.tobytes()), bs, repr(nps), repr(a_perf))
    trivial = len(avail) == 0
    is_iet = name == "IntervalEstimationThreshold"
    avail_per_row = {}
    for r, a in avail:
        avail_per_row[r] = avail_per_row.get(r, 0) + 1
    if is_iet and any(0 < c < m for c in avail_per_row.values()):
        trivial = True  # outside the documented domain of IEThresh
    acc.case(key, trivial=trivial)
    if trivial:
        return
    wit = {"strategy": name, "X": X.tolist(), "y": y.tolist(), "candidates": cand if not isinstance(cand, tuple) else list(cand),
           "annotators": None if annot is None else annot.tolist(), "batch_size": bs, "n_annotators_per_sample": nps, "A_perf": a_perf}
    rep = {"strategy": name, "y": y, "cand": None if cand is None else (list(cand) if isinstance(cand, tuple) else cand),
           "annot": annot, "bs": bs, "nps": nps, "a_perf": a_perf, "int_matrix": bool(annot is not None and annot.ndim == 2 and annot.dtype.kind in "iu")}
    size = int(np.sum(~np.isnan(y))) + bs * 3 + (0 if cand is None else 5) + (0 if annot is None else 5)
    preds = {"cand": "none" if cand is None else ("rows" if isinstance(cand, tuple) else "idx"),
             "annot": "none" if annot is None else ("idx" if annot.ndim == 1 else "matrix"),
             "empty_availability_row": bool(annot is not None and annot.ndim == 2 and (~annot.astype(bool).any(axis=1)).any()),
             "int_matrix": bool(annot is not None and annot.ndim == 2 and annot.dtype.kind in "iu"),
             "row_without_pair": bool(len(avail_per_row) < (n_rows if (cand is None or isinstance(cand, tuple)) else len(cand))),
             "bs_gt_rows": bool(bs > (len(cand) if isinstance(cand, list) else n_rows)),
             # a sample of X that some annotator has labeled already (so the aggregated label vector marks it as labeled)
             "candidate_sample_has_label": bool((not isinstance(cand, tuple)) and any(
                 np.any(~np.isnan(y[r])) for r in (list(cand) if isinstance(cand, list) else range(len(y)))))}

    def run(tp):
        return run_query(qs, extra, X, y, cand_arg, annot, bs, None if is_iet else nps, a_perf, tp, inner=inner)

    for tp, o in T.explore(run, bound, max_runs=40):
        acc.transitions += 1
        if o[0] == "lasso":
            acc.violation(name, "non_termination", o[1], wit, preds, rep, size)
            break
        if o[0] == "timeout":
            acc.violation(name, "no_result_within_horizon", o[1], wit, preds, rep, size)
            break
        if o[0] == "exc":
            e = o[1]
            acc.violation(name, "exception:" + type(e).__name__, "%s: %s" % (type(e).__name__, str(e)[:200]), wit, dict(preds, exc=str(e)[:50]), rep, size)
            break
        v = judge(o[1], o[2], avail, bs, n_rows, m, None if is_iet else nps, avail_per_row)
        for kind, detail in v:
            acc.violation(name, kind, detail + " [tape %s]" % tp.choices, wit, preds, rep, size)
        if v:
            break
        acc.traces_validated += 1
        acc.outcome((key[:5], tuple(map(tuple, o[1].tolist()))))


def run_shard(spec):
    T.install()
    acc = Acc()
    name = spec["strategy"]
    b = bounds(spec["tier"])
    cases = gen_cases(name, spec["tier"])
    is_iet = name == "IntervalEstimationThreshold"
    for i, (y, cand, annot) in enumerate(cases):
        if i % spec["of"] != spec["part"]:
            continue
        n_rows = 3 if not isinstance(cand, tuple) else len(cand[1]) + (1 if cand[2] else 0)
        avail = available_pairs(y, cand, annot, n_rows if isinstance(cand, tuple) else None)
        maxbs = len(avail) + 1
        if spec["tier"] == "quick":
            maxbs = min(maxbs, 5)
        for bs in range(1, maxbs + 1):
            for nps in ([None] if is_iet else b["n_annotators_per_sample"]):
                if isinstance(nps, list) and bs < 2:
                    continue  # with a single pair a per-rank preference list is the same as its first entry
                # annotator performances: ties, seeded random, and a negative-valued vector with a gap > 1 (log scores) that must be
                # normalised into [0, 1) so that it never outweighs the sample ranking
                for a_perf in ([None] if is_iet else ([0.5, 0.5], None) if (i % 3 == 0) else ([0.5, 0.5], [-3.0, 0.5]) if (i % 3 == 1) else ([0.5, 0.5],)):
                    run_case(acc, name, y, cand, annot, bs, nps, a_perf, b["deviation_bound"])
        if i % 97 == 0:
            acc.sample({"strategy": name, "y": y.tolist(), "candidates": cand if not isinstance(cand, tuple) else list(cand),
                        "annotators": None if annot is None else annot.tolist()}, limit=1)
    acc.states = len(acc.nontrivial)
    return acc


def replay(spec):
    T.install()
    acc = Acc()
    y = np.asarray(spec["y"], dtype=float)
    cand = spec["cand"]
    if isinstance(cand, list) and len(cand) == 3 and cand[0] == "rows":
        cand = ("rows", [int(i) for i in cand[1]], bool(cand[2]))
    elif cand is not None:
        cand = [int(i) for i in cand]
    annot = spec["annot"]
    if annot is not None:
        annot = np.asarray(annot)
        annot = (annot.astype(int) if spec.get("int_matrix") else annot.astype(bool)) if annot.ndim == 2 else annot.astype(int)
    nps = None if spec["nps"] is None else ([int(v) for v in spec["nps"]] if isinstance(spec["nps"], (list, tuple)) else int(spec["nps"]))
    run_case(acc, spec["strategy"], y, cand, annot, int(spec["bs"]), nps, spec["a_perf"], 1)
    return [(s, k) for (s, k, _p) in acc.groups]


# ---------------------------------------------------------------------------
# C20 (3): the single-annotator wrapper chooses samples in the order the wrapped strategy ranks them
def check_order_transparency(acc, inner, tier):
    from skactiveml.pool.multiannotator import SingleAnnotatorWrapper

    m = 2
    configs = [(X3, 3, list(itertools.product((0, 1), repeat=3 * m)))]
    if not inner.arbitrary_idx:
        # batch-aware strategies (CoreSet): additionally four samples at growing distances, whole rows labeled / missing; their utility
        # rows grow from step to step, which the wrapper's rank transformation has to survive
        configs.append((np.array([[0.0], [1.0], [3.0], [10.0]]), 4, [tuple(v for v in rows for _ in range(m)) for rows in itertools.product((0, 1), repeat=4)]))
    for X, n, pats in configs:
        _order_transparency_on(acc, inner, tier, X, n, m, pats)


def _order_transparency_on(acc, inner, tier, X, n, m, pats):
    from skactiveml.pool.multiannotator import SingleAnnotatorWrapper

    for pat in pats:
        # both annotators agree on every sample, so the label aggregation has no ties
        y = np.array([[NAN if pat[i * m + a] else float(i % 2) for a in range(m)] for i in range(n)])
        unl_rows = [i for i in range(n) if np.isnan(y[i]).any()]
        if not unl_rows:
            continue
        n_pairs = int(np.isnan(y).sum())
        for k, nps in [(k, 1) for k in range(1, len(unl_rows) + 1)] + [(k, 2) for k in range(2, n_pairs + 1)]:
            if nps == 2 and any(not np.isnan(y[i]).any() for i in range(n)) and tier == "quick" and k > 4:
                continue
            key = ("saw-order", inner.name, pat, k, nps)
            acc.case(key)
            saw = SingleAnnotatorWrapper(inner.make(0), random_state=0)
            kw = inner.query_kwargs(X)
            a_perf = [0.5, 0.5] if (nps == 1 or k % 2) else [-3.0, 0.5]
            o = run_query(saw, None, X, y, None, None, k, nps, a_perf, T.Tape(), watch=False, inner=inner)
            acc.transitions += 1
            # reference: inner strategy on the aggregated labels, same candidates, same tape
            from skactiveml.utils import majority_vote

            wit = {"wrapper": "SingleAnnotatorWrapper", "inner": inner.name, "X": X.tolist(), "y": y.tolist(), "batch_size": k, "n_annotators_per_sample": nps, "A_perf": a_perf}
            rep = {"what": "saw", "inner": inner.name, "pool": "line4"}
            if o[0] != "ok":
                partial = bool(any(np.isnan(y[i]).any() and not np.isnan(y[i]).all() for i in range(n)))
                acc.violation("SingleAnnotatorWrapper", "wrapper_fails", "%s" % (o[1],), wit,
                              {"inner": inner.name, "partially_labeled_candidate": partial, "inner_needs_unlabeled_candidates": not inner.arbitrary_idx}, rep, k)
                continue
            np.random.seed(PR.GLOBAL_SEED)
            with warnings.catch_warnings():
                warnings.simplefilter("ignore")
                y_agg = majority_vote(y, random_state=np.random.RandomState(0))
                # ties in the aggregation are avoided by construction (at most 2 annotators with fillings that agree per row or single labels)
                ref = PR.run_query(inner, X, y_agg, np.array(unl_rows), min(k, len(unl_rows)), T.Tape(), "substitute", kw=kw, qs=inner.make(0))
            acc.transitions += 1
            if ref[0] != "ok":
                continue
            acc.traces_validated += 1
            got = [int(r) for r in o[1][:, 0]]
            exp = [int(i) for i in np.asarray(ref[1]).ravel()]
            # the pairs come from the first samples of the inner ranking, in order (each sample contributes up to n_annotators_per_sample pairs,
            # more only when the batch cannot be filled otherwise)
            dedup = [r for i, r in enumerate(got) if r not in got[:i]]
            if dedup != exp[:len(dedup)]:
                acc.violation("SingleAnnotatorWrapper", "sample_order_differs", "wrapper picks samples %s, the wrapped strategy ranks %s (same tape)" % (got, exp),
                              wit, {}, rep, k)
            acc.outcome((key, tuple(got)))
