"""C13 - fit is history-free and never rewrites constructor parameters.

(1) Estimators: BFS over operation sequences (depth 3/4) on one object with
the alphabet fit(D_i), partial_fit(D_i), predict(Q) over four data sets of
different size, variance, class set and weights. After every history the
object must (a) report unchanged get_params(deep=True) and leave
caller-owned dict parameters untouched, (b) predict exactly like a fresh
object driven through the suffix of the history that starts at the last fit
(the documented history), (c) for the sliding-window classifier equal a
fresh inner estimator fitted on the last window_size samples of the
reference list.
(2) Stream strategies / budget managers / pool strategies: get_params is
unchanged by every query and update transition of a small BFS.
A static AST scan of all method bodies for writes to constructor parameters
steers the configurations (it is evidence, not a verdict).
"""
import ast
import copy
import itertools
import os
import warnings

import numpy as np

from checks import stream_graph as G
from mc import fingerprint as F
from mc import tape as T
from mc.acc import Acc
from subjects import models as M
from subjects import stream as SS

PROPERTY = "C13"
NAN = float("nan")
META = {
    "rule": "estimators: state = operation history (sequence over fit/partial_fit/predict x 4 data sets) on one object, merged on the full "
    "fingerprint; every state is compared with a fresh object driven through the documented suffix; stream subjects: state = "
    "fingerprint reached by query/update histories; non-trivial = every state; distinct = distinct (subject, fingerprint/history)",
    "assumptions": ["5 data sets (sizes 2-4, different variance / class sets / weights, one without any label), depth 3 (quick) / 4 (thorough)",
                    "predictions of used and fresh objects are compared with rtol=1e-9"],
}

DATA = {
    "D0": ([[0.0], [3.0]], [None, None], None),  # no label at all: an admissible training set that must reset the model just the same
    "D1": ([[0.0], [1.0], [2.0], [4.0]], [0, 1, None, 1], None),
    "D2": ([[0.0], [10.0], [20.0]], [1, 1, 0], None),
    "D3": ([[0.0], [1.0]], [None, 2], None),
    "D4": ([[0.0], [1.0], [2.0], [4.0]], [1, 0, 0, None], [1.0, 2.0, 0.5, 1.0]),
}
QX = np.array([[0.5], [3.0], [15.0]])


def _xyw(name, kind, multi):
    X, y, w = DATA[name]
    X = np.array(X, dtype=float)
    if kind == "reg":
        yy = np.array([NAN if v is None else 1.5 * v for v in y], dtype=float)
    else:
        yy = np.array([NAN if v is None else float(v) for v in y], dtype=float)
    ww = None if w is None else np.array(w, dtype=float)
    if multi:
        yy = np.column_stack([yy, yy[::-1]])
        ww = None if ww is None else np.column_stack([ww, ww])
    return X, yy, ww


# ---- estimator configurations with symbolic defaults ------------------------
def _est_configs():
    from skactiveml.classifier import ParzenWindowClassifier, SlidingWindowClassifier
    from skactiveml.regressor import NICKernelRegressor, NadarayaWatsonRegressor

    out = []

    def pwc_mean():
        d = {"gamma": "mean"}
        return ParzenWindowClassifier(classes=[0, 1, 2], metric_dict=d, random_state=0), {"metric_dict": d}

    def pwc_none():
        return ParzenWindowClassifier(classes=[0, 1, 2], random_state=0), {}

    def pwc_noclasses():
        d = {"gamma": 0.5}
        return ParzenWindowClassifier(metric_dict=d, random_state=0), {"metric_dict": d}

    def slide_mean():
        d = {"gamma": "mean"}
        inner = ParzenWindowClassifier(classes=[0, 1, 2], metric_dict=d, random_state=0)
        return SlidingWindowClassifier(inner, classes=[0, 1, 2], window_size=3, random_state=0), {"estimator.metric_dict": d}

    def nic_none():
        return NICKernelRegressor(random_state=0), {}

    def nic_dict():
        d = {"gamma": 0.5}
        return NICKernelRegressor(metric_dict=d, random_state=0), {"metric_dict": d}

    def nw_none():
        return NadarayaWatsonRegressor(random_state=0), {}

    def sgd_warm():
        from sklearn.linear_model import SGDClassifier

        from skactiveml.classifier import SklearnClassifier

        return SklearnClassifier(SGDClassifier(loss="log_loss", warm_start=True, max_iter=3, tol=None, random_state=0), classes=[0, 1, 2],
                                 random_state=0), {}

    def sgdr_warm():
        from sklearn.linear_model import SGDRegressor

        from skactiveml.regressor import SklearnRegressor

        return SklearnRegressor(SGDRegressor(warm_start=True, max_iter=3, tol=None, random_state=0), random_state=0), {}

    def gnb_prefit():
        from sklearn.naive_bayes import GaussianNB

        from skactiveml.classifier import SklearnClassifier

        est = GaussianNB().fit([[0.0], [1.0], [5.0]], [0, 1, 2])  # an already trained estimator handed to the wrapper: the caller's object
        return SklearnClassifier(est, classes=[0, 1, 2], random_state=0), {"estimator (already fitted, caller-owned)": est}

    out.append(("SklearnClassifier[GaussianNB,prefitted]", "clf", gnb_prefit, dict(partial=True)))
    # estimators whose own fit is NOT history-free (warm start): only the wrapper's fresh copy makes fit history-free
    out.append(("SklearnClassifier[SGD,warm_start]", "clf", sgd_warm, dict(partial=True)))
    out.append(("SklearnRegressor[SGD,warm_start]", "reg", sgdr_warm, dict(partial=True)))
    out.append(("ParzenWindowClassifier[gamma=mean]", "clf", pwc_mean, dict(freq=True)))
    out.append(("ParzenWindowClassifier[metric_dict=None]", "clf", pwc_none, dict(freq=True)))
    out.append(("ParzenWindowClassifier[classes=None]", "clf", pwc_noclasses, dict(freq=True)))
    out.append(("SlidingWindowClassifier[PWC,gamma=mean]", "clf", slide_mean, dict(freq=True, partial=True, window=3)))
    out.append(("NICKernelRegressor[metric_dict=None]", "reg", nic_none, dict(prob=True)))
    out.append(("NICKernelRegressor[metric_dict]", "reg", nic_dict, dict(prob=True)))
    out.append(("NadarayaWatsonRegressor[metric_dict=None]", "reg", nw_none, dict(prob=True)))
    for c in M.CLASSIFIERS:
        if c.name.startswith("ParzenWindowClassifier") and c.name != "ParzenWindowClassifier[n_neighbors=1]":
            continue
        out.append((c.name, "clf", (lambda c=c: (c.make(classes=[0, 1, 2], random_state=0), {})),
                    dict(freq=c.freq, partial=c.partial, multi=c.multi, window=c.window)))
    for r in M.REGRESSORS:
        if r.name in ("NICKernelRegressor", "NadarayaWatsonRegressor"):
            continue
        out.append((r.name, "reg", (lambda r=r: (r.make(random_state=0), {})), dict(prob=r.probabilistic, partial=r.partial)))
    return out


def param_changes(name):
    """set_params menus (the only legitimate way besides the constructor to change get_params)"""
    if "prefitted" in name:
        return []  # nested set_params would legitimately change the caller-owned estimator that this subject watches
    if name.startswith("ParzenWindowClassifier"):
        return [{"n_neighbors": 1}, {"metric_dict": {"gamma": 2.0}}]
    if name.startswith("SlidingWindowClassifier"):
        return [{"window_size": 2}, {"window_size": None}]
    if name.startswith("MixtureModelClassifier"):
        return [{"weight_mode": "similarities" if "responsibilities" in name else "responsibilities"}]
    if name.startswith("SklearnClassifier[LogisticRegression"):
        return [{"estimator__C": 0.05}]
    if name.startswith("SklearnClassifier[GaussianNB"):
        return [{"estimator__var_smoothing": 0.5}]
    if name.startswith("SklearnClassifier[DecisionTree"):
        return [{"estimator__max_depth": 1}]
    if name.startswith("SklearnClassifier[SGD") or name.startswith("SklearnRegressor[SGD"):
        return [{"estimator__alpha": 0.5}]
    if name.startswith("AnnotatorEnsembleClassifier"):
        return [{"voting": "soft" if "hard" in name else "hard"}]
    if name.startswith("AnnotatorLogisticRegression"):
        return [{"max_iter": 3}]
    if name.startswith("NICKernelRegressor"):
        return [{"kappa_0": 2.0, "mu_0": 1.0}]
    if name.startswith("NadarayaWatsonRegressor"):
        return [{"metric_dict": {"gamma": 2.0}}]
    if name.startswith("SklearnRegressor[LinearRegression"):
        return [{"estimator__fit_intercept": False}]
    if name.startswith("SklearnNormalRegressor[BayesianRidge"):
        return [{"estimator__fit_intercept": False}]
    if name.startswith("SklearnNormalRegressor[GaussianProcess"):
        return [{"estimator__alpha": 0.5}]
    return []


EST_CONFIGS = None


def est_configs():
    global EST_CONFIGS
    if EST_CONFIGS is None:
        EST_CONFIGS = _est_configs()
    return EST_CONFIGS


def bounds(tier):
    return {"estimator_configs": [c[0] for c in est_configs()], "datasets": {k: {"X": v[0], "y": v[1], "w": v[2]} for k, v in DATA.items()},
            "ops": "fit(D0..D4), partial_fit(D0,D1,D2,D4) where available, predict(Q), set_params(<1-2 changes per estimator>)", "depth": 3 if tier == "quick" else 4,
            "stream_subjects": [s.name for s in SS.ALL], "stream_horizon": 3, "query_points": QX.tolist()}


def shards(tier, seed):
    out = [{"tier": tier, "what": "est", "name": c[0]} for c in est_configs()]
    out += [{"tier": tier, "what": "stream", "name": s.name} for s in SS.ALL]
    out.append({"tier": tier, "what": "scan"})
    return out


def _observe(kind, opts, est):
    with warnings.catch_warnings():
        warnings.simplefilter("ignore")
        try:
            if kind == "clf":
                o = {"proba": np.asarray(est.predict_proba(QX), dtype=float)}
                if opts.get("freq"):
                    o["freq"] = np.asarray(est.predict_freq(QX), dtype=float)
                # decisions only where they are unique (ties are broken randomly)
                return ("ok", o)
            if opts.get("prob"):
                m, s = est.predict(QX, return_std=True)
                return ("ok", {"mean": np.asarray(m, dtype=float), "std": np.asarray(s, dtype=float)})
            return ("ok", {"mean": np.asarray(est.predict(QX), dtype=float)})
        except Exception as e:
            return ("exc", type(e).__name__)


def _apply(kind, opts, est, op):
    """op = ('fit'|'partial_fit'|'predict', dataset name)"""
    with warnings.catch_warnings():
        warnings.simplefilter("ignore")
        if op[0] == "predict":
            return _observe(kind, opts, est)[0]
        if op[0] == "set":
            est.set_params(**copy.deepcopy(op[1]))
            return "ok"
        X, y, w = _xyw(op[1], kind, opts.get("multi", False))
        try:
            f = getattr(est, op[0])
            f(X, y) if w is None else f(X, y, sample_weight=w)
            return "ok"
        except Exception as e:
            return "exc:" + type(e).__name__


def _same_obs(a, b):
    if a[0] != b[0]:
        return False
    if a[0] == "exc":
        return a[1] == b[1]
    for k in a[1]:
        if a[1][k].shape != b[1][k].shape or not np.allclose(a[1][k], b[1][k], rtol=1e-9, atol=1e-12, equal_nan=True):
            return False
    return True


def check_estimator(acc, name, kind, factory, opts, depth):
    ops = [("fit", d) for d in DATA] + [("predict", None)]
    if opts.get("partial"):
        ops += [("partial_fit", d) for d in ("D0", "D1", "D2", "D4")]
    changes = param_changes(name)
    ops += [("set", c) for c in changes]

    def fresh_with(h):
        """fresh object with the parameter changes of history h applied (set_params is the documented way to change parameters)"""
        f, _ = factory()
        for o in h:
            if o[0] == "set":
                f.set_params(**copy.deepcopy(o[1]))
        return f

    est0, owned0 = factory()
    owned_ref = copy.deepcopy(owned0)
    p0 = F.params_fp(est0)
    frontier = [((), est0, owned0)]
    seen = set()
    cfg = {"estimator": name}
    for d in range(depth):
        nxt = []
        for hist, est, owned in frontier:
            for op in ops:
                e2 = copy.deepcopy((est, owned))
                est2, owned2 = e2
                res = _apply(kind, opts, est2, op)
                acc.transitions += 1
                h2 = hist + (op,)
                wit = dict(cfg, history=[list(o) for o in h2], datasets={k: {"X": v[0], "y": v[1], "w": v[2]} for k, v in DATA.items()})
                rep = {"what": "est", "name": name, "history": [list(o) for o in h2]}
                size = len(h2)
                # (a) parameters: exactly what the constructor + the set_params calls of the history imply
                p_exp = F.params_fp(fresh_with(h2)) if any(o[0] == "set" for o in h2) else p0
                if F.params_fp(est2) != p_exp:
                    changed = _changed_params(fresh_with(h2), est2)
                    acc.violation(name, "get_params_changed", "after %s: parameters %s changed" % (_fmt(h2), changed), wit,
                                  {"params": ",".join(changed), "last_op": op[0]}, rep, size)
                for k, dct in owned2.items():
                    if F.digest(F.canon(dct)) != F.digest(F.canon(owned_ref[k])):
                        acc.violation(name, "caller_dict_mutated", "after %s: caller-owned dict %s is now %r (was %r)" % (_fmt(h2), k, dct, owned_ref[k]),
                                      wit, {"param": k, "last_op": op[0]}, rep, size)
                # (b) history freedom: compare with a fresh object driven through the documented suffix
                last_set = max([i for i, o in enumerate(h2) if o[0] == "set"], default=-1)
                last_fit0 = max([i for i, o in enumerate(h2) if o[0] == "fit"], default=None)
                # parameter changes in the middle of an incremental history have no documented meaning: compare only when the
                # documented suffix starts after the last set_params
                comparable = op[0] not in ("predict", "set") and (last_set < 0 or (last_fit0 is not None and last_fit0 > last_set))
                if res == "ok" and comparable:
                    last_fit = max([i for i, o in enumerate(h2) if o[0] == "fit"], default=None)
                    suffix = [o for o in (h2[last_fit:] if last_fit is not None else h2) if o[0] not in ("predict", "set")]
                    fresh = fresh_with(h2)
                    ok = True
                    for o in suffix:
                        if not _apply(kind, opts, fresh, o).startswith("ok"):
                            ok = False
                    ob_used = _observe(kind, opts, est2)
                    ob_fresh = _observe(kind, opts, fresh)
                    acc.traces_validated += 1
                    if not _same_obs(ob_used, ob_fresh):
                        acc.violation(name, "fit_depends_on_history", "after %s the object predicts %s, a fresh object driven through %s predicts %s" % (
                            _fmt(h2), _fmto(ob_used), _fmt(suffix), _fmto(ob_fresh)), wit, {"last_op": op[0]}, rep, size)
                    # (c) sliding window reference model
                    if "window" in opts and opts.get("window", 0) != 0 and name.startswith("SlidingWindowClassifier"):
                        Xs, ys, ws = [], [], []
                        has_w = True
                        for o in suffix:
                            X, y, w = _xyw(o[1], kind, False)
                            if getattr(fresh_with(h2), "only_labeled", False):
                                keep = ~np.isnan(y)  # unlabeled samples are discarded on arrival
                                X, y, w = X[keep], y[keep], (None if w is None else w[keep])
                            if o[0] == "fit":
                                Xs, ys, ws, has_w = [], [], [], True
                            Xs += list(X)
                            ys += list(y)
                            if w is None:
                                has_w = False
                            else:
                                ws += list(w)
                        win = fresh_with(h2).window_size  # the window size configured by the constructor / set_params
                        wn = win if win is not None else len(Xs)
                        Xs, ys = np.array(Xs[-wn:]), np.array(ys[-wn:])
                        wsw = np.array(ws[-wn:]) if has_w and len(ws) >= len(Xs) else None
                        inner = copy.deepcopy(fresh_with(h2).estimator)
                        with warnings.catch_warnings():
                            warnings.simplefilter("ignore")
                            try:
                                inner.fit(Xs, ys) if wsw is None else inner.fit(Xs, ys, sample_weight=wsw)
                                ob_ref = _observe(kind, opts, inner)
                            except Exception as e:
                                ob_ref = ("exc", type(e).__name__)
                        acc.traces_validated += 1
                        if not _same_obs(ob_used, ob_ref):
                            acc.violation(name, "window_model_differs", "after %s the sliding-window classifier predicts %s, a fresh estimator fitted on the "
                                          "last %s samples predicts %s" % (_fmt(h2), _fmto(ob_used), win, _fmto(ob_ref)), wit,
                                          {"last_op": op[0]}, rep, size)
                elif res.startswith("exc") and comparable:
                    # an operation that fails on a used object must fail on the fresh one as well
                    last_fit = max([i for i, o in enumerate(h2) if o[0] == "fit"], default=None)
                    suffix = [o for o in (h2[last_fit:] if last_fit is not None else h2) if o[0] not in ("predict", "set")]
                    fresh = fresh_with(h2)
                    r2 = "ok"
                    for o in suffix:
                        r2 = _apply(kind, opts, fresh, o)
                        if not r2.startswith("ok"):
                            break
                    if r2 != res:
                        acc.violation(name, "failure_depends_on_history", "after %s: %s, but a fresh object driven through %s: %s" % (
                            _fmt(h2), res, _fmt(suffix), r2), wit, {"last_op": op[0], "exc": res}, rep, size)
                # merge key: implementation state (values + sharing of mutable sub-objects) x state of the reference model (documented
                # suffix since the last fit, parameter changes) - two histories are merged only if both agree
                lf = max([i for i, o in enumerate(h2) if o[0] == "fit"], default=None)
                ref_key = (tuple(o for o in (h2[lf:] if lf is not None else h2) if o[0] not in ("predict", "set")), tuple(o for o in h2 if o[0] == "set"))
                k = (F.fp_merge((est2, owned2)), repr(ref_key))
                acc.case((name, h2))
                acc.outcome((name, F.fp((est2, owned2))))
                if res == "ok" or res.startswith("ok"):
                    if k not in seen:
                        seen.add(k)
                        nxt.append((h2, est2, owned2))
        frontier = nxt
    acc.states += len(seen)
    acc.sample({"estimator": name, "example_history": [["fit", "D1"], ["partial_fit", "D2"], ["predict", None]], "distinct_states": len(seen)}, limit=1)


def _changed_params(pristine, used):
    a, b = F.params_dict_fp(pristine), F.params_dict_fp(used)
    return [k for k in sorted(set(a) | set(b)) if a.get(k) != b.get(k)]


def _fmt(h):
    return " -> ".join(("set_params(%s)" % o[1]) if o[0] == "set" else "%s(%s)" % (o[0], o[1] or "Q") for o in h)


def _fmto(o):
    if o[0] == "exc":
        return "exception " + o[1]
    k = list(o[1])[0]
    return "%s=%s" % (k, np.round(o[1][k], 5).tolist())


# ---- stream subjects: parameters under query/update ---------------------------
def check_stream(acc, subj):
    UV = SS.UTIL_VALUES_C03
    cfg = {"subject": subj.name, "budget": 0.5}

    def on_transition(pre, chunk, tp, post, res, h2, n):
        acc.transitions += 1
        if res[0] != "ok":
            return False
        if F.params_fp(pre) != F.params_fp(post):
            changed = _changed_params(pre, post)
            acc.violation(subj.name, "get_params_changed", "query/update of chunk %s changed parameters %s" % ("".join(chunk), changed),
                          dict(cfg, history=[[c, list(t)] for c, t in h2]), {"params": ",".join(changed), "last_op": "update"},
                          {"what": "stream", "name": subj.name, "history": [[c, list(t)] for c, t in h2]}, len(h2))
        return True

    def on_state(o, hist, n):
        acc.case((subj.name, F.fp(o)))

    with warnings.catch_warnings():
        warnings.simplefilter("ignore")
        r = G.bfs(subj, 0.5, "real", 2, 3, 600, UV, on_state, on_transition, seed=0, max_tapes=50)
        # a budget changed by set_params on a used object must be the budget of the next call (nothing resolved earlier may survive)
        sym = ("h",) if subj.kind == "manager" else ("a",)
        for new_budget in (0.25, 1.0):
            o = G.fresh(subj, 0.5, "real", 0)
            try:
                i0, u0 = G.do_query(subj, o, sym, UV)
                G.do_update(subj, o, sym, i0, u0, UV)
                o.set_params(budget=new_budget)
                i1, u1 = G.do_query(subj, o, sym, UV)
                G.do_update(subj, o, sym, i1, u1, UV)
            except Exception:
                continue
            acc.transitions += 4
            acc.case((subj.name, "set_params(budget)", new_budget))
            got = getattr(o, "budget_", None)
            if got is not None and float(got) != float(new_budget):
                acc.violation(subj.name, "resolved_budget_ignores_set_params", "after set_params(budget=%s) and one query/update the object still works with "
                              "budget_=%r" % (new_budget, got), dict(cfg, new_budget=new_budget), {"last_op": "set_params"},
                              {"what": "stream", "name": subj.name, "history": [], "set_budget": new_budget}, 2)
    acc.states += r["states"]


# ---- static steering scan ------------------------------------------------------
def scan_param_writes():
    """[(module, class, method, parameter, line)] for every `self.<ctor param> = ...` outside __init__."""
    import skactiveml

    root = os.path.dirname(skactiveml.__file__)
    hits = []
    for dp, dn, fn in os.walk(root):
        if "tests" in dp:
            continue
        for f in fn:
            if not f.endswith(".py"):
                continue
            path = os.path.join(dp, f)
            try:
                tree = ast.parse(open(path).read())
            except SyntaxError:
                continue
            for node in ast.walk(tree):
                if not isinstance(node, ast.ClassDef):
                    continue
                params = set()
                for m in node.body:
                    if isinstance(m, ast.FunctionDef) and m.name == "__init__":
                        params = {a.arg for a in m.args.args + m.args.kwonlyargs if a.arg != "self"}
                if not params:
                    continue
                for m in node.body:
                    if not isinstance(m, ast.FunctionDef) or m.name in ("__init__", "set_params"):
                        continue
                    for n in ast.walk(m):
                        tg = []
                        if isinstance(n, ast.Assign):
                            tg = n.targets
                        elif isinstance(n, (ast.AugAssign, ast.AnnAssign)):
                            tg = [n.target]
                        for t in tg:
                            for t2 in (t.elts if isinstance(t, ast.Tuple) else [t]):
                                if isinstance(t2, ast.Attribute) and isinstance(t2.value, ast.Name) and t2.value.id == "self" and t2.attr in params:
                                    hits.append((os.path.relpath(path, root), node.name, m.name, t2.attr, n.lineno))
    return sorted(set(hits))


def run_shard(spec):
    T.install()
    acc = Acc()
    if spec["what"] == "est":
        for name, kind, factory, opts in est_configs():
            if name == spec["name"]:
                check_estimator(acc, name, kind, factory, opts, bounds(spec["tier"])["depth"])
    elif spec["what"] == "stream":
        check_stream(acc, SS.BY_NAME[spec["name"]])
    else:
        hits = scan_param_writes()
        acc.evaluations += 1
        acc.extra["static_scan_hits"] = len(hits)
        acc.samples.append({"static_scan_of_parameter_writes_outside_init (steering only)": ["%s:%d %s.%s writes self.%s" % (h[0], h[4], h[1], h[2], h[3]) for h in hits]})
    return acc


def replay(spec):
    T.install()
    acc = Acc()
    if spec["what"] == "est":
        for name, kind, factory, opts in est_configs():
            if name == spec["name"]:
                check_estimator(acc, name, kind, factory, opts, max(3, len(spec["history"])))
    else:
        check_stream(acc, SS.BY_NAME[spec["name"]])
    return [(s, k) for (s, k, _p) in acc.groups]
