"""C17 - annotation aggregation equals plain counting.

All label matrices up to the shape bound over {missing, c0, c1, c2}, all
weight matrices over a small alphabet, several encodings, all four
`normalize` modes; tie tapes for majority_vote. Reference models are nested
loops that count.
"""
import itertools
import warnings

import numpy as np

from mc import tape as T
from mc.acc import Acc

PROPERTY = "C17"
NAN = float("nan")
META = {
    "rule": "one case = (function, encoding, classes mode, label matrix[, weight matrix | normalize]); trivial = the function "
    "documents a rejection (no class can be inferred); distinct = distinct tuple; majority_vote cases run all tie tapes",
    "assumptions": ["matrices up to the stated shapes, <= 3 classes, weights from the stated alphabet",
                    "for normalised confusion matrices only entries with a non-zero denominator are compared with the counting model "
                    "(0/0 entries must merely be finite)"],
}

ENC = {
    "float/nan": dict(ml=NAN, classes=[0.0, 1.0, 2.0], dtype=float),
    "int/-1": dict(ml=-1, classes=[0, 1, 2], dtype=int),
    "int10/0": dict(ml=0, classes=[10, 20, 30], dtype=int),
    # sentinels that coincide with an *encoded* class index (0..K-1): internal code that mixes the label spaces confuses them
    "int1/0": dict(ml=0, classes=[1, 2, 3], dtype=int),
    "intgap/2": dict(ml=2, classes=[0, 1, 3], dtype=int),
    "str/empty": dict(ml="", classes=["a", "b", "c"], dtype=str),
    # one-character labels that are prefixes of the sentinel: a fully annotated matrix has dtype <U1, narrower than the sentinel
    "strprefix/nan": dict(ml="nan", classes=["a", "n", "y"], dtype=str),
    "obj/None": dict(ml=None, classes=["a", "b", "c"], dtype=object),
}


def bounds(tier):
    q = tier == "quick"
    return {
        "encodings": list(ENC) if not q else ["float/nan", "int10/0", "int1/0", "intgap/2", "str/empty", "strprefix/nan", "obj/None"],
        "label_shapes": [[1], [2], [3], [1, 1], [1, 2], [2, 1], [2, 2], [3, 2], [2, 3]] if not q else [[1], [2], [1, 2], [2, 2], [3, 2], [2, 3]],
        "label_shapes_all_encodings": [[2], [2, 2]],
        "symbols": "missing + 3 classes",
        "weight_shapes": [[2, 2], [1, 2]],
        "weight_alphabet": [0, 1, 2] if q else [0, 1, 2, "nan"],
        "classes_modes": ["None", "given"],
        "confusion": "y_true of length 1..3 over the classes, y_pred n x m (m <= 2) over missing + classes, normalize in {None,'true','pred','all'}",
    }


def _arr(vals, shape, e):
    ml = e["ml"]
    sym = [ml] + list(e["classes"])
    data = [sym[v] for v in vals]
    if e["dtype"] is object:
        a = np.empty(len(data), dtype=object)
        a[:] = data
        return a.reshape(shape)
    return np.array(data, dtype=e["dtype"]).reshape(shape)


def ref_votes(vals, shape, w, n_classes, offset=0):
    """vals: symbols 0=missing, k=class k-1."""
    m = np.array(vals).reshape(shape if len(shape) == 2 else (shape[0], 1))
    W = np.ones(m.shape) if w is None else np.array(w, dtype=float).reshape(m.shape)
    v = np.zeros((m.shape[0], n_classes))
    for i in range(m.shape[0]):
        for a in range(m.shape[1]):
            if m[i, a] == 0:
                continue
            ww = W[i, a]
            if ww != ww:
                ww = 0.0
            v[i, m[i, a] - 1 - offset] += ww
    return v


def check_votes(acc, ename, cmode, shape, vals, w):
    from skactiveml.utils import compute_vote_vectors, majority_vote

    e = ENC[ename]
    y = _arr(vals, shape, e)
    present = sorted(set(v for v in vals if v))
    classes = list(e["classes"]) if cmode == "given" else None
    wa = None if w is None else np.array([NAN if x == "nan" else x for x in w], dtype=float).reshape(shape)
    key = ("votes", ename, cmode, tuple(shape), tuple(vals), None if w is None else tuple(w))
    wit = {"function": "compute_vote_vectors/majority_vote", "encoding": ename, "classes": repr(classes), "y": y.tolist(),
           "w": None if w is None else list(w), "missing_label": repr(e["ml"])}
    rep = {"kind": "votes", "enc": ename, "cmode": cmode, "shape": list(shape), "vals": list(vals), "w": None if w is None else list(w)}
    size = len(vals) + (0 if w is None else 1)
    if classes is None:
        n_classes = len(present)
        cls_idx = present  # symbol numbers in sorted order
    else:
        n_classes = 3
        cls_idx = [1, 2, 3]
    # ---- compute_vote_vectors
    trivial = n_classes == 0
    acc.case(key, trivial=trivial)
    try:
        with warnings.catch_warnings():
            warnings.simplefilter("ignore")
            y_in, w_in = y.copy(), (None if wa is None else wa.copy())
            if wa is not None and y.ndim == 2:
                # arrays with a different memory layout (transposed views / Fortran order) are the same arrays
                for ylay, wlay in (("C", "F"), ("F", "C"), ("F", "F")):
                    yl = np.asfortranarray(y) if ylay == "F" else np.ascontiguousarray(y)
                    wl = np.asfortranarray(wa) if wlay == "F" else np.ascontiguousarray(wa)
                    vl = compute_vote_vectors(yl.copy(order="K"), w=wl.copy(order="K"), classes=classes, missing_label=e["ml"])
                    v0 = compute_vote_vectors(y.copy(), w=wa.copy(), classes=classes, missing_label=e["ml"])
                    acc.transitions += 2
                    if np.asarray(vl).shape != np.asarray(v0).shape or not np.array_equal(np.asarray(vl, dtype=float), np.asarray(v0, dtype=float)):
                        acc.violation("compute_vote_vectors", "depends_on_memory_layout", "y in %s order, w in %s order: %s; both C order: %s" % (
                            ylay, wlay, np.asarray(vl).tolist(), np.asarray(v0).tolist()), wit, replay=rep, size=size)
                        break
            v = compute_vote_vectors(y_in, w=w_in, classes=classes, missing_label=e["ml"])
            same_y = np.array_equal(y_in, y, equal_nan=True) if y.dtype.kind == "f" else np.array_equal(y_in, y)
            if not same_y or (w_in is not None and not np.array_equal(w_in, wa, equal_nan=True)):
                acc.violation("compute_vote_vectors", "input_modified", "y: %s -> %s, w: %s -> %s" % (y.tolist(), y_in.tolist(), None if wa is None else wa.tolist(),
                              None if w_in is None else w_in.tolist()), wit, replay=rep, size=size)
        acc.transitions += 1
        if trivial:
            acc.violation("compute_vote_vectors", "no_rejection_without_classes", "returned %s" % (v.tolist(),), wit, replay=rep, size=size)
        else:
            ref = np.zeros((y.shape[0], n_classes))
            full = ref_votes(vals, shape, None if w is None else [NAN if x == "nan" else x for x in w], 3)
            for j, s in enumerate(cls_idx):
                ref[:, j] = full[:, s - 1]
            acc.traces_validated += 1
            if np.asarray(v).shape != ref.shape or not np.array_equal(np.asarray(v, dtype=float), ref):
                acc.violation("compute_vote_vectors", "wrong_counts", "got %s expected %s" % (np.asarray(v).tolist(), ref.tolist()), wit,
                              replay=rep, size=size)
    except ValueError as ex:
        acc.transitions += 1
        if trivial and "can not be inferred" in str(ex):
            acc.reject("compute_vote_vectors: number of classes cannot be inferred")
        else:
            acc.violation("compute_vote_vectors", "exception:ValueError", str(ex)[:200], wit, replay=rep, size=size)
    except Exception as ex:
        acc.violation("compute_vote_vectors", "exception:" + type(ex).__name__, str(ex)[:200], wit, replay=rep, size=size)
    # ---- majority_vote under all tie tapes
    m = np.array(vals).reshape(shape if len(shape) == 2 else (shape[0], 1))
    full = ref_votes(vals, shape, None if w is None else [NAN if x == "nan" else x for x in w], 3)
    sym = [e["ml"]] + list(e["classes"])
    reached = [set() for _ in range(m.shape[0])]

    def run(tp):
        with warnings.catch_warnings():
            warnings.simplefilter("ignore")
            with T.ties(tp):
                try:
                    return majority_vote(y.copy(), w=None if wa is None else wa.copy(), classes=classes, missing_label=e["ml"],
                                         random_state=np.random.RandomState(0))
                except Exception as ex:
                    return ex

    n_exec = 0
    for tp, res in T.explore(run, bound=m.shape[0], max_runs=300):
        n_exec += 1
        acc.transitions += 1
        if isinstance(res, Exception):
            acc.violation("majority_vote", "exception:" + type(res).__name__, str(res)[:200], wit, replay=rep, size=size)
            break
        res = np.asarray(res)
        if res.shape != (m.shape[0],):
            acc.violation("majority_vote", "result_shape", "%s" % (res.shape,), wit, replay=rep, size=size)
            break
        for i in range(m.shape[0]):
            r = res[i]
            has_label = bool(np.any(m[i] != 0))
            is_ml = (r != r) if (isinstance(e["ml"], float) and e["ml"] != e["ml"]) else (r is None if e["ml"] is None else r == e["ml"])
            if not has_label:
                if not is_ml:
                    acc.violation("majority_vote", "label_for_unlabeled_sample", "sample %d got %r" % (i, r), wit, replay=rep, size=size)
                continue
            if is_ml:
                acc.violation("majority_vote", "missing_for_labeled_sample", "sample %d got the sentinel (tape %s)" % (i, tp.choices), wit,
                              replay=rep, size=size)
                continue
            try:
                s = sym.index(r if not isinstance(r, np.generic) else r.item())
            except ValueError:
                acc.violation("majority_vote", "not_a_class", "sample %d got %r" % (i, r), wit, replay=rep, size=size)
                continue
            allowed = cls_idx
            votes = {c: full[i, c - 1] for c in allowed}
            if s not in votes or votes[s] != max(votes.values()):
                acc.violation("majority_vote", "not_a_maximal_vote", "sample %d got class symbol %d with votes %s (tape %s)" % (i, s, votes, tp.choices),
                              wit, replay=rep, size=size)
            reached[i].add(s)
    if T.explore.capped:
        acc.cap("majority_vote tapes capped at 300")
    else:
        for i in range(m.shape[0]):
            if np.any(m[i] != 0) and n_exec:
                votes = {c: full[i, c - 1] for c in cls_idx}
                best = {c for c in votes if votes[c] == max(votes.values())}
                if reached[i] and reached[i] != best:
                    acc.violation("majority_vote", "tie_not_reachable", "sample %d: maximal classes %s, reached %s" % (i, sorted(best), sorted(reached[i])),
                                  wit, replay=rep, size=size)
    acc.outcome((key, tuple(sorted(tuple(sorted(r)) for r in reached))))


def check_confusion(acc, ename, cmode, n, m, true_vals, pred_vals, normalize):
    from skactiveml.utils import ext_confusion_matrix

    e = ENC[ename]
    yt = _arr(true_vals, (n,), e)
    yp = _arr(pred_vals, (n, m) if m else (n,), e)
    mm = max(m, 1)
    classes = list(e["classes"]) if cmode == "given" else None
    present = sorted(set(true_vals) | set(v for v in pred_vals if v))
    cls_idx = [1, 2, 3] if classes is not None else present
    K = len(cls_idx)
    key = ("conf", ename, cmode, n, m, tuple(true_vals), tuple(pred_vals), normalize)
    wit = {"function": "ext_confusion_matrix", "encoding": ename, "classes": repr(classes), "y_true": yt.tolist(), "y_pred": yp.tolist(),
           "normalize": normalize, "missing_label": repr(e["ml"])}
    rep = {"kind": "conf", "enc": ename, "cmode": cmode, "n": n, "m": m, "true": list(true_vals), "pred": list(pred_vals), "normalize": normalize}
    size = n * (mm + 1)
    acc.case(key)
    try:
        with warnings.catch_warnings():
            warnings.simplefilter("ignore")
            C = ext_confusion_matrix(yt.copy(), yp.copy(), classes=classes, missing_label=e["ml"], normalize=normalize)
        acc.transitions += 1
    except Exception as ex:
        acc.violation("ext_confusion_matrix", "exception:" + type(ex).__name__, str(ex)[:200], wit, replay=rep, size=size)
        return
    P = np.array(pred_vals).reshape(n, mm)
    ref = np.zeros((mm, K, K))
    for a in range(mm):
        for i in range(n):
            if P[i, a] == 0:
                continue
            ref[a, cls_idx.index(true_vals[i]), cls_idx.index(P[i, a])] += 1
    C = np.asarray(C, dtype=float)
    acc.traces_validated += 1
    if C.shape != ref.shape:
        acc.violation("ext_confusion_matrix", "result_shape", "%s expected %s" % (C.shape, ref.shape), wit, replay=rep, size=size)
        return
    if not np.all(np.isfinite(C)):
        acc.violation("ext_confusion_matrix", "non_finite", "%s" % C.tolist(), wit, replay=rep, size=size)
        return
    for a in range(mm):
        cm = ref[a]
        if normalize is None:
            exp, mask = cm, np.ones_like(cm, dtype=bool)
        elif normalize == "true":
            den = cm.sum(axis=1, keepdims=True) * np.ones_like(cm)
            mask = den > 0
            exp = np.divide(cm, den, out=np.zeros_like(cm), where=mask)
        elif normalize == "pred":
            den = cm.sum(axis=0, keepdims=True) * np.ones_like(cm)
            mask = den > 0
            exp = np.divide(cm, den, out=np.zeros_like(cm), where=mask)
        else:
            den = cm.sum() * np.ones_like(cm)
            mask = den > 0
            exp = np.divide(cm, den, out=np.zeros_like(cm), where=mask)
        if not np.allclose(C[a][mask], exp[mask], rtol=1e-12, atol=1e-12):
            acc.violation("ext_confusion_matrix", "wrong_counts" if normalize is None else "wrong_normalised_counts",
                          "normalize=%r annotator %d: got %s expected %s" % (normalize, a, C[a].tolist(), exp.tolist()), wit,
                          {"normalize": str(normalize)}, replay=rep, size=size)
            break
    acc.outcome((key, C.tobytes()))


def _cases(tier):
    b = bounds(tier)
    out = []
    for ename in b["encodings"]:
        for cmode in b["classes_modes"]:
            for shape in b["label_shapes"]:
                if ename != "float/nan" and shape not in b["label_shapes_all_encodings"]:
                    continue
                nel = int(np.prod(shape))
                for vals in itertools.product(range(4), repeat=nel):
                    out.append(("votes", ename, cmode, shape, vals, None))
            for shape in b["weight_shapes"]:
                nel = int(np.prod(shape))
                if ename not in ("float/nan", "str/empty"):
                    continue
                for vals in itertools.product(range(4), repeat=nel):
                    for w in itertools.product(b["weight_alphabet"], repeat=nel):
                        out.append(("votes", ename, cmode, shape, vals, w))
            for n in (1, 2, 3):
                for m in ((0, 1, 2) if n < 3 else (1,)):
                    if ename != "float/nan" and (n, m) not in ((2, 1), (2, 0)):
                        continue
                    for tv in itertools.product((1, 2, 3), repeat=n):
                        for pv in itertools.product(range(4), repeat=n * max(m, 1)):
                            for norm in (None, "true", "pred", "all"):
                                out.append(("conf", ename, cmode, n, m, tv, pv, norm))
    return out


def shards(tier, seed):
    return [{"tier": tier, "part": i, "of": 48} for i in range(48)]


def _run(acc, c):
    if c[0] == "votes":
        check_votes(acc, c[1], c[2], tuple(c[3]), tuple(c[4]), None if c[5] is None else tuple(c[5]))
    else:
        check_confusion(acc, c[1], c[2], c[3], c[4], tuple(c[5]), tuple(c[6]), c[7])


def run_shard(spec):
    T.install()
    acc = Acc()
    cs = _cases(spec["tier"])
    for i, c in enumerate(cs[spec["part"]::spec["of"]]):
        _run(acc, c)
        if i % 499 == 0:
            acc.sample({"case": [repr(x) for x in c]}, limit=1)
    acc.states = len(acc.nontrivial)
    return acc


def replay(spec):
    T.install()
    acc = Acc()
    if spec["kind"] == "votes":
        w = spec["w"]
        if w is not None:
            w = [("nan" if (isinstance(x, float) and x != x) else x) for x in w]
            w = [int(x) if not isinstance(x, str) else x for x in w]
        _run(acc, ("votes", spec["enc"], spec["cmode"], [int(x) for x in spec["shape"]], [int(x) for x in spec["vals"]], w))
    else:
        _run(acc, ("conf", spec["enc"], spec["cmode"], int(spec["n"]), int(spec["m"]), [int(x) for x in spec["true"]],
                   [int(x) for x in spec["pred"]], spec["normalize"]))
    return [(s, k) for (s, k, _p) in acc.groups]
