"""C12 - unlabeled samples do not influence supervised models.

For every purely supervised learner, every labeling of small pools over
{missing, classes} and every insertion of 1-2 extra unlabeled rows (from a
3-point alphabet, any position, weights from {0.5, 3}): the model fitted on
(X, y, w) is compared with the model fitted on the labeled subset only.
"""
import itertools
import warnings

import numpy as np

from mc.acc import Acc
from subjects import models as M

PROPERTY = "C12"
NAN = float("nan")
META = {
    "rule": "one case = (learner, pool, labeling, inserted unlabeled rows + positions, weight pattern, classes mode); trivial = no labeled "
    "sample at all or no unlabeled sample at all; distinct = distinct tuple; each case is a paired fit (full vs labeled subset)",
    "assumptions": ["pools of 4 points (3 x 2 annotators for AnnotatorLogisticRegression), targets {0,1,2} / {0,1.5,3}",
                    "predictions compared bit-wise for the scikit-learn wrappers and with rtol=1e-9 for kernel sums / iterative solvers"],
}
EXTRA = {1: [[0.5], [2.0], [9.0]], 2: [[0.5, 0.5], [2.0, 2.0], [9.0, -3.0]]}


def bounds(tier):
    q = tier == "quick"
    return {"classifiers": [c.name for c in M.CLASSIFIERS if c.supervised], "regressors": [r.name for r in M.REGRESSORS if r.supervised],
            "refit_only_subjects": [c.name for c in M.STATEFUL_CLASSIFIERS + M.STATEFUL_REGRESSORS],
            "pools": ["line4", "grid4"] if q else ["line4", "dup4", "grid4"], "inserted_rows": "0, 1 (every position, every value); thorough: also 2",
            "weights": "None; labeled rows 1,2,1,2 or 0,2,1,0 (zero weights at labeled rows) and unlabeled rows all patterns over {0.5, 3}", "classes_modes": ["None", "declared"]}


def shards(tier, seed):
    b = bounds(tier)
    out = []
    for kind, names in (("clf", b["classifiers"]), ("reg", b["regressors"])):
        for n in names:
            for p in b["pools"]:
                out.append({"tier": tier, "kind": kind, "name": n, "pool": p})
    for kind, subs in (("clf", M.STATEFUL_CLASSIFIERS), ("reg", M.STATEFUL_REGRESSORS)):
        for s in subs:
            out.append({"tier": tier, "kind": kind, "name": s.name, "pool": "line4", "refit_only": True})
    return out


def shard_cost(spec):
    s = M.CLF_BY_NAME.get(spec["name"]) or M.REG_BY_NAME.get(spec["name"])
    return s.cost


def _targets(lab, kind):
    if kind == "reg":
        return np.array([NAN if v is None else 1.5 * v for v in lab], dtype=float)
    return np.array([NAN if v is None else float(v) for v in lab], dtype=float)


def _predict(kind, subj, est, Q):
    with warnings.catch_warnings():
        warnings.simplefilter("ignore")
        if kind == "clf":
            return {"proba": np.asarray(est.predict_proba(Q), dtype=float), "pred": np.asarray(est.predict(Q), dtype=float)}
        out = {}
        if getattr(subj, "probabilistic", False):
            m, s = est.predict(Q, return_std=True)
            out["mean"], out["std"] = np.asarray(m, dtype=float), np.asarray(s, dtype=float)
        else:
            out["mean"] = np.asarray(est.predict(Q), dtype=float)
        return out


def run_case(acc, kind, subj, pname, X, y, w, classes, tag):
    """paired fit: (X, y, w) vs labeled subset"""
    multi = getattr(subj, "multi", False)
    lbl = ~np.isnan(y) if not multi else np.any(~np.isnan(y), axis=1)
    key = (subj.name, pname, X.tobytes(), y.tobytes(), None if w is None else w.tobytes(), repr(classes))
    trivial = (not lbl.any()) or lbl.all()
    acc.case(key, trivial=trivial)
    if trivial:
        return
    wit = {"learner": subj.name, "X": X.tolist(), "y": y.tolist(), "sample_weight": None if w is None else w.tolist(), "classes": classes, "how": tag}
    rep = {"kind": kind, "name": subj.name, "pool": pname, "X": X, "y": y, "w": w, "classes": classes}
    size = len(X) * 10 + (0 if w is None else 3)

    def mk():
        if kind == "clf":
            return subj.make(classes=classes, random_state=0)
        return subj.make(random_state=0)

    Q = np.vstack([np.array(M.TRAIN_POOLS[pname], dtype=float)[: (3 if multi else 4)], [M.FAR[X.shape[1]]]]) if getattr(subj, "kernel", False) \
        else np.array(M.TRAIN_POOLS[pname], dtype=float)[: (3 if multi else 4)]
    res = []
    for XX, yy, ww in ((X, y, w), (X[lbl], y[lbl], None if w is None else w[lbl])):
        try:
            with warnings.catch_warnings():
                warnings.simplefilter("ignore")
                est = mk()
                est.fit(XX, yy) if ww is None else est.fit(XX, yy, sample_weight=ww)
            res.append(("ok", _predict(kind, subj, est, Q)))
        except Exception as e:
            res.append(("exc", type(e).__name__ + ": " + str(e)[:100]))
        acc.transitions += 1
    acc.traces_validated += 1
    a, b = res
    if a[0] != b[0]:
        acc.violation(subj.name, "fit_outcome_depends_on_unlabeled_samples", "full data: %s; labeled subset: %s" % (a[0] if a[0] == "ok" else a[1],
                      b[0] if b[0] == "ok" else b[1]), wit, {"weights": w is not None}, rep, size)
        return
    if a[0] == "exc":
        return
    exact = subj.name.startswith("Sklearn")
    for k in a[1]:
        u, v = a[1][k], b[1][k]
        same = np.array_equal(u, v, equal_nan=True) if exact else np.allclose(u, v, rtol=1e-9, atol=1e-12, equal_nan=True)
        if not same:
            acc.violation(subj.name, "prediction_depends_on_unlabeled_samples",
                          "%s with unlabeled samples %s, on the labeled subset %s" % (k, np.round(u, 6).tolist(), np.round(v, 6).tolist()), wit,
                          {"weights": w is not None, "output": k}, rep, size)
            break
    acc.outcome((subj.name, a[1][list(a[1])[0]].tobytes()))


def run_reveal(acc, kind, subj, pname, X, y_full, hide, w, classes, same_object=False):
    """'revealing labels in a different order': first fit with the labels in `hide` still missing, then reveal them and fit again with the
    SAME caller-owned arrays; the final model must equal the one fitted on the labeled subset with the original weights."""
    multi = getattr(subj, "multi", False)
    key = (subj.name, pname, "reveal", same_object, X.tobytes(), y_full.tobytes(), tuple(hide), None if w is None else w.tobytes(), repr(classes))
    lbl = ~np.isnan(y_full) if not multi else np.any(~np.isnan(y_full), axis=1)
    if not lbl.any():
        acc.case(key, trivial=True)
        return
    acc.case(key)
    w_orig = None if w is None else w.copy()
    Xc, wc = X.copy(), (None if w is None else w.copy())  # caller-owned arrays, reused for both fits
    y0 = y_full.copy()
    y0[list(hide)] = NAN
    wit = {"learner": subj.name, "X": X.tolist(), "y_final": y_full.tolist(), "hidden_in_first_fit": list(hide), "sample_weight": None if w is None else w.tolist(),
           "classes": classes, "how": "fit(X, y_partial, w); reveal labels; fit(X, y_final, w) with the same arrays" + (
               " on the same learner object" if same_object else " on a second learner object")}
    rep = {"kind": kind, "name": subj.name, "pool": pname, "X": X, "y": y_full, "w": w, "classes": classes, "hide": list(hide),
           "same_object": same_object}
    size = len(X) * 10 + len(hide)

    def mk():
        return subj.make(classes=classes, random_state=0) if kind == "clf" else subj.make(random_state=0)

    Q = np.array(M.TRAIN_POOLS[pname], dtype=float)[: (3 if multi else 4)]
    try:
        with warnings.catch_warnings():
            warnings.simplefilter("ignore")
            e1 = mk()
            e1.fit(Xc, y0) if wc is None else e1.fit(Xc, y0, sample_weight=wc)
            e2 = e1 if same_object else mk()
            yc = y_full.copy()
            e2.fit(Xc, yc) if wc is None else e2.fit(Xc, yc, sample_weight=wc)
            got = _predict(kind, subj, e2, Q)
            ref = mk()
            ref.fit(X[lbl], y_full[lbl]) if w_orig is None else ref.fit(X[lbl], y_full[lbl], sample_weight=w_orig[lbl])
            want = _predict(kind, subj, ref, Q)
        acc.transitions += 3
    except Exception as e:
        return
    acc.traces_validated += 1
    if wc is not None and not np.array_equal(wc, w_orig):
        acc.violation(subj.name, "fit_modifies_sample_weight", "fit changed the caller's sample_weight from %s to %s" % (w_orig.tolist(), wc.tolist()), wit,
                      {"weights": True}, rep, size)
    if not np.array_equal(Xc, X):
        acc.violation(subj.name, "fit_modifies_X", "fit changed the caller's X", wit, {}, rep, size)
    exact = subj.name.startswith("Sklearn")
    for k in got:
        same = np.array_equal(got[k], want[k], equal_nan=True) if exact else np.allclose(got[k], want[k], rtol=1e-9, atol=1e-12, equal_nan=True)
        if not same:
            acc.violation(subj.name, "model_depends_on_reveal_order", "%s after revealing %s in a second step: %s; fitted on the labeled subset: %s" % (
                k, list(hide), np.round(got[k], 6).tolist(), np.round(want[k], 6).tolist()), wit,
                {"weights": w is not None, "output": k, "same_object": same_object}, rep, size)
            break


def gen_cases(kind, subj, pname, tier):
    multi = getattr(subj, "multi", False)
    P = np.array(M.TRAIN_POOLS[pname], dtype=float)
    if multi:
        P = P[:3]
    n = len(P)
    nf = P.shape[1]
    cols = 2 if multi else 1
    labs = list(itertools.product((None, 0, 1, 2), repeat=n * cols))
    if multi:
        labs = [l for i, l in enumerate(labs) if i % (16 if tier == "quick" else 4) == 1 or sum(v is not None for v in l) <= 1]
    elif subj.cost >= 3 and tier == "quick":
        labs = [l for i, l in enumerate(labs) if i % 3 == 0]
    extras = EXTRA[nf]
    for lab in labs:
        y = _targets(lab, kind)
        if multi:
            y = y.reshape(n, 2)
        for classes in ((None, [0, 1, 2]) if kind == "clf" else (None,)):
            yield P, y, None, classes, "pool labeling"
        # weights: labeled 1,2,1,2...; unlabeled all patterns over {0.5, 3}
        lbl = ~np.isnan(y) if not multi else np.any(~np.isnan(y), axis=1)
        ul = np.flatnonzero(~lbl)
        if len(ul) and lbl.any() and getattr(subj, "supports_weights", True):
            # labeled rows: strictly positive weights, and a pattern with zero weights at labeled rows (samples that are labeled but switched off)
            for base in (np.array([1.0, 2.0, 1.0, 2.0][:n]), np.array([0.0, 2.0, 1.0, 0.0][:n])):
                for pat in itertools.product((0.5, 3.0), repeat=min(len(ul), 2)):
                    w = base.copy()
                    for j, i in enumerate(ul[:2]):
                        w[i] = pat[j]
                    ww = w if not multi else np.column_stack([w, w])
                    yield P, y, ww, ([0, 1, 2] if kind == "clf" else None), "pool labeling + weights"
    # inserted foreign unlabeled rows at every position
    base_labs = [(0, 1, 2, 0), (0, 0, 1, None), (2, None, None, 1)] if not multi else [(0, 1, 1, None, 2, 2), (0, None, None, None, 1, 1)]
    if tier == "thorough" and not multi:
        base_labs += [(1, 1, 1, 1), (0, 2, None, None), (None, 1, None, 2)]
    for lab in base_labs:
        y0 = _targets(lab, kind)
        if multi:
            y0 = y0.reshape(n, 2)
        for k in ((1,) if tier == "quick" else (1, 2)):
            for rows in itertools.product(range(len(extras)), repeat=k):
                for pos in itertools.combinations_with_replacement(range(n + 1), k):
                    X, y = P.copy(), y0.copy()
                    for r, p in sorted(zip(rows, pos), key=lambda t: -t[1]):
                        X = np.insert(X, p, extras[r], axis=0)
                        y = np.insert(y, p, NAN, axis=0)
                    yield X, y, None, ([0, 1, 2] if kind == "clf" else None), "inserted unlabeled rows"


def run_shard(spec):
    acc = Acc()
    kind = spec["kind"]
    subj = (M.CLF_BY_NAME if kind == "clf" else M.REG_BY_NAME)[spec["name"]]
    # two-step label reveal with caller-owned arrays reused (all labelings with >= 2 labels, every single hidden label and every pair)
    multi = getattr(subj, "multi", False)
    P = np.array(M.TRAIN_POOLS[spec["pool"]], dtype=float)[: (3 if multi else 4)]
    n = len(P)
    labs = list(itertools.product((None, 0, 1, 2), repeat=n * (2 if multi else 1)))
    step = (16 if multi else (3 if subj.cost >= 3 else 1)) * (1 if spec["tier"] == "thorough" else 2)
    for li, lab in enumerate(labs):
        if li % step:
            continue
        y = _targets(lab, kind)
        if multi:
            y = y.reshape(n, 2)
        rows = [i for i in range(n) if (np.any(~np.isnan(y[i])) if multi else not np.isnan(y[i]))]
        if len(rows) < 2:
            continue
        hides = [(r,) for r in rows] + [tuple(c) for c in itertools.combinations(rows, 2)]
        for hide in hides:
            for w in (None, np.array([1.0, 2.0, 0.5, 3.0][:n])):
                if w is not None and not getattr(subj, "supports_weights", True):
                    continue
                ww = w if (w is None or not multi) else np.column_stack([w, w])
                for same in (False, True):
                    if spec.get("refit_only") and not same:
                        continue
                    run_reveal(acc, kind, subj, spec["pool"], P, y, hide, ww, [0, 1, 2] if kind == "clf" else None, same)
    if spec.get("refit_only"):
        acc.states = len(acc.nontrivial)
        return acc
    for i, (X, y, w, classes, tag) in enumerate(gen_cases(kind, subj, spec["pool"], spec["tier"])):
        run_case(acc, kind, subj, spec["pool"], X, y, w, classes, tag)
        if i % 301 == 0:
            acc.sample({"learner": subj.name, "X": X.tolist(), "y": y.tolist(), "w": None if w is None else w.tolist(), "classes": classes}, limit=1)
    acc.states = len(acc.nontrivial)
    return acc


def replay(spec):
    acc = Acc()
    kind = spec["kind"]
    subj = (M.CLF_BY_NAME if kind == "clf" else M.REG_BY_NAME)[spec["name"]]
    X = np.asarray(spec["X"], dtype=float)
    y = np.asarray(spec["y"], dtype=float)
    w = None if spec["w"] is None else np.asarray(spec["w"], dtype=float)
    if spec.get("hide") is not None:
        run_reveal(acc, kind, subj, spec["pool"], X, y, tuple(int(i) for i in spec["hide"]), w, spec["classes"], bool(spec.get("same_object")))
        return [(s, k) for (s, k, _p) in acc.groups]
    run_case(acc, kind, subj, spec["pool"], X, y, w, spec["classes"], "replay")
    return [(s, k) for (s, k, _p) in acc.groups]
