"""Choice tapes: the explorer owns the library's randomness (DESIGN 3.3).

Tie level
---------
`rand_argmax` / `rand_argmin` are rebound (in every loaded skactiveml module
whose attribute *is* the original function) to their specification: compute
the set of positions holding the exact optimum of the non-NaN entries and let
the current `Tape` pick one. A tape is a list of small integers; position i
answers the i-th *real* choice point (a point with >= 2 options); beyond its
end the answer is 0. `explore` is the stateless DFS with an iterated deviation
bound (number of non-zero answers).

Observation mode runs the *real* functions and records which tied optimum the
real generator picked; the recorded tape can be replayed in substitution mode
(conformance pass).

Generator level
---------------
`TapeRNG` is a real `RandomState` subclass whose scripted methods consult the
tape (see class docstring). `rng_override` makes
`skactiveml.utils.check_random_state(random_state, seed_multiplier)` return a
given generator for pool strategies (which derive a fresh generator per
query).
"""
import contextlib
import itertools
import sys

import numpy as np


class Divergence(Exception):
    """Replaying a tape prefix met a choice point that does not fit: some
    nondeterminism is not owned by the explorer (engine error, never a
    property violation)."""


class Tape:
    def __init__(self, prefix=()):
        self.prefix = list(prefix)
        self.points = []  # (n_options, taken, label)
        self.unobservable = None

    def choose(self, n, label=""):
        if n <= 1:
            return 0
        i = len(self.points)
        if i < len(self.prefix):
            c = self.prefix[i]
            if c >= n:
                raise Divergence(
                    f"tape position {i}: recorded answer {c} but only {n} options at {label}"
                )
        else:
            c = 0
        self.points.append((n, c, label))
        return c

    @property
    def choices(self):
        return [p[1] for p in self.points]

    def deviations(self):
        return sum(1 for p in self.points if p[1] != 0)


def explore(run, bound, max_runs=None):
    """Stateless DFS over tapes. `run(tape)` executes the subject once.
    Yields (tape, result) for every execution with at most `bound`
    deviations. Sets explore.capped if max_runs was hit."""
    stack = [()]
    n = 0
    capped = False
    while stack:
        prefix = stack.pop()
        tape = Tape(prefix)
        res = run(tape)
        n += 1
        yield tape, res
        if max_runs is not None and n >= max_runs:
            capped = bool(stack)
            break
        devs = sum(1 for c in prefix if c != 0)
        if devs + 1 > bound:
            continue
        ch = tape.choices
        # a prefix shorter than the recorded one may have been cut by an
        # exception; only points after the prefix spawn alternatives
        for i in range(len(prefix), len(tape.points)):
            for alt in range(tape.points[i][0] - 1, 0, -1):
                stack.append(tuple(ch[:i]) + (alt,))
    explore.capped = capped


explore.capped = False

# --------------------------------------------------------------------------
# tie-level substitution
# --------------------------------------------------------------------------
_STATE = {"tape": None, "mode": None, "orig": None, "rng": None, "orig_crs": None}


def _tie_sets(a, kw, is_max):
    """List of (flat output position, array of tied optimum positions along
    the reduced axis or of the flattened array)."""
    axis = kw.get("axis", None)
    red = np.nanmax if is_max else np.nanmin
    with np.errstate(all="ignore"):
        import warnings

        with warnings.catch_warnings():
            warnings.simplefilter("ignore")
            opt = red(a, **kw, keepdims=True)
    mask = a == opt
    if axis is None:
        return [np.flatnonzero(mask.ravel())], None
    m = np.moveaxis(mask, axis, -1)
    out_shape = m.shape[:-1]
    m2 = m.reshape(-1, m.shape[-1])
    return [np.flatnonzero(row) for row in m2], out_shape


def _finish(index_array, a):
    if np.isscalar(index_array) and a.ndim > 1:
        index_array = np.unravel_index(index_array, a.shape)
    return np.atleast_1d(index_array)


def _make_sub(is_max):
    def sub(a, random_state=None, **kw):
        tape = _STATE["tape"]
        orig = _STATE["orig"][is_max]
        if tape is None or not isinstance(random_state, np.random.RandomState):
            # int / None random_state: a deterministic or global draw; defer
            return orig(a, random_state=random_state, **kw)
        a = np.asarray(a)
        label = ("argmax" if is_max else "argmin")
        if _STATE["mode"] == "observe":
            res = orig(a, random_state=random_state, **kw)
            ties, out_shape = _tie_sets(a, kw, is_max)
            if out_shape is None:
                flat = int(np.ravel_multi_index(tuple(int(x) for x in res), a.shape)) if a.ndim > 1 else int(res[0])
                picks = [flat]
            else:
                picks = [int(x) for x in np.asarray(res).reshape(-1)]
            for t, p in zip(ties, picks):
                # a real primitive that returns a non-optimum is C18's finding; here the run is merely not replayable
                if len(t) > 1:
                    pos = np.flatnonzero(t == p)
                    if len(pos) != 1:
                        tape.unobservable = f"real {label} returned a non-optimum {p} not in {t.tolist()}"
                        continue
                    tape.points.append((len(t), int(pos[0]), label))
                elif len(t) == 1 and t[0] != p:
                    tape.unobservable = f"real {label} returned {p}, unique optimum is {t[0]}"
            return res
        # substitution: consume exactly what the real function consumes
        if isinstance(random_state, TapeRNG):
            random_state.raw_random(a.shape)
        else:
            random_state.random(a.shape)
        ties, out_shape = _tie_sets(a, kw, is_max)
        picks = []
        for t in ties:
            if len(t) == 0:
                picks.append(0)  # all-NaN slice: the real function returns 0
            else:
                picks.append(int(t[tape.choose(len(t), label)]))
        if out_shape is None:
            idx = np.int64(picks[0])
        else:
            idx = np.array(picks, dtype=np.int64).reshape(out_shape)
            if idx.ndim == 0:
                idx = np.int64(idx)
        return _finish(idx, a)

    sub.__name__ = "rand_argmax" if is_max else "rand_argmin"
    sub._verif_sub = True
    return sub


def _patch_all(name, orig, new):
    n = 0
    for mname, mod in list(sys.modules.items()):
        if mod is None or not (mname == "skactiveml" or mname.startswith("skactiveml.")):
            continue
        if getattr(mod, name, None) is orig:
            setattr(mod, name, new)
            n += 1
    return n


def install():
    """Idempotent: rebinds rand_argmax / rand_argmin / check_random_state in
    all loaded skactiveml modules. With no current tape / override the
    substitutes defer to the originals, so installing is behaviour-neutral."""
    if _STATE["orig"] is not None:
        return
    import skactiveml  # noqa
    import skactiveml.pool  # noqa
    import skactiveml.pool.multiannotator  # noqa
    import skactiveml.stream  # noqa
    import skactiveml.classifier  # noqa
    import skactiveml.classifier.multiannotator  # noqa
    import skactiveml.regressor  # noqa
    from skactiveml.utils import _selection, _validation

    omax, omin = _selection.rand_argmax, _selection.rand_argmin
    _STATE["orig"] = {True: omax, False: omin}
    n1 = _patch_all("rand_argmax", omax, _make_sub(True))
    n2 = _patch_all("rand_argmin", omin, _make_sub(False))
    ocrs = _validation.check_random_state
    _STATE["orig_crs"] = ocrs

    def check_random_state(random_state, seed_multiplier=None):
        fac = _STATE["rng"]
        if fac is not None and seed_multiplier is not None and random_state is not None:
            return fac(ocrs(random_state, seed_multiplier))
        return ocrs(random_state, seed_multiplier)

    check_random_state._verif_sub = True
    n3 = _patch_all("check_random_state", ocrs, check_random_state)
    _STATE["patched"] = (n1, n2, n3)
    assert n1 >= 3 and n2 >= 2 and n3 >= 3, _STATE["patched"]


def originals():
    install()
    return _STATE["orig"][True], _STATE["orig"][False]


@contextlib.contextmanager
def ties(tape, mode="substitute"):
    install()
    old = (_STATE["tape"], _STATE["mode"])
    _STATE["tape"], _STATE["mode"] = tape, mode
    try:
        yield tape
    finally:
        _STATE["tape"], _STATE["mode"] = old


@contextlib.contextmanager
def rng_override(factory):
    """While active, the per-query generator that pool strategies derive via
    check_random_state(random_state, seed_multiplier) is passed through
    `factory` (e.g. lambda rs: TapeRNG.like(rs, scripted=('choice',)))."""
    install()
    old = _STATE["rng"]
    _STATE["rng"] = factory
    try:
        yield factory
    finally:
        _STATE["rng"] = old


# --------------------------------------------------------------------------
# generator-level substitution
# --------------------------------------------------------------------------
def _orderings(n, full_upto=4):
    """Permutations of 0..n-1 offered for a vector that will be ranked."""
    if n <= full_upto:
        return list(itertools.permutations(range(n)))
    base = list(range(n))
    out = []
    for r in range(n):
        rot = base[r:] + base[:r]
        out.append(tuple(rot))
        out.append(tuple(reversed(rot)))
    return out


class Unobservable(Exception):
    """A real draw cannot be mapped back to a tape answer (conformance runs
    skip the case)."""


class TapeRNG(np.random.RandomState):
    """A real RandomState (same stream as the generator it was made from)
    whose *scripted* draws consult the tape. `scripted` is a subset of
    {'uniform', 'normal', 'choice'}:

    * 'uniform': random / random_sample / rand. A vector (size n >= 2) is in
      *ordering mode*: one choice point selecting a permutation of the n
      equally spaced values (k+0.5)/n. A scalar is in *region mode*: one
      choice point over `self.scalars`, representative values the harness
      derived from the thresholds of the configuration.
    * 'normal': normal(loc, scale) scalar, region mode over
      loc + scale * self.normals.
    * 'choice': choice(a, size, replace=False, p): sequential choice among
      the entries with positive probability.
    Every scripted draw first performs the real draw (so the underlying
    stream advances exactly as in an unscripted run and invalid arguments
    raise what the real generator raises), then substitutes the tape's
    answer. In observation mode the real answer is returned and recorded on
    the tape. Everything else falls through. Deep copies share the tape."""

    def __init__(self, seed=0, tape=None, scripted=("choice",), scalars=(0.05, 0.5, 0.95), normals=(0.0, -1.0, 1.0), full_upto=4):
        super().__init__(seed)
        self.tape = tape
        self.scripted = tuple(scripted)
        self.scalars = tuple(scalars)
        self.normals = tuple(normals)
        self.full_upto = full_upto
        self.log = []

    @classmethod
    def like(cls, rs, **kw):
        r = cls(0, **kw)
        r.set_state(rs.get_state())
        return r

    def __deepcopy__(self, memo):
        new = TapeRNG(0, self.tape, self.scripted, self.scalars, self.normals, self.full_upto)
        new.set_state(self.get_state())
        new.log = self.log
        return new

    def __reduce__(self):
        return (_rebuild_taperng, (self.get_state(), self.scripted, self.scalars, self.normals, self.full_upto))

    def _tape(self):
        return self.tape if self.tape is not None else _STATE["tape"]

    def _observe(self):
        return _STATE["mode"] == "observe"

    def _uniform(self, real):
        tape = self._tape()
        if tape is None or "uniform" not in self.scripted or getattr(self, "_busy", False):
            return real
        shape = np.shape(real)
        n = int(np.prod(shape)) if shape != () else 1
        if n == 0:
            return real
        if n == 1:
            if self._observe():
                v = float(np.ravel(real)[0])
                # region = index of the nearest representative on the same side of every threshold
                # (the harness supplies thresholds via self.regions when it wants observation)
                regions = getattr(self, "regions", None)
                if regions is None:
                    raise Unobservable("scalar draw without region map")
                tape.points.append((len(self.scalars), int(regions(v)), "u-scalar"))
                return real
            v = self.scalars[tape.choose(len(self.scalars), "u-scalar")]
            self.log.append(("u", v))
            return np.full(shape, v) if shape != () else float(v)
        perms = _orderings(n, self.full_upto)
        if self._observe():
            perm = tuple(int(x) for x in np.argsort(np.argsort(np.ravel(real))))
            if perm not in perms:
                raise Unobservable("ordering outside the reduced alphabet")
            tape.points.append((len(perms), perms.index(perm), "u-order%d" % n))
            return real
        perm = perms[tape.choose(len(perms), "u-order%d" % n)]
        vals = (np.asarray(perm, dtype=float) + 0.5) / n
        self.log.append(("uvec", tuple(perm)))
        return vals.reshape(shape)

    def raw_random(self, size=None):
        """unscripted uniform draw (used by the tie-level substitutes)"""
        return np.random.RandomState.random_sample(self, size)

    def random_sample(self, size=None):
        return self._uniform(super().random_sample(size))

    random = random_sample

    def rand(self, *dims):
        return self._uniform(super().rand(*dims))

    def normal(self, loc=0.0, scale=1.0, size=None):
        self._busy = True
        try:
            real = super().normal(loc, scale, size)
        finally:
            self._busy = False
        tape = self._tape()
        if tape is None or "normal" not in self.scripted or size not in (None, 1, (1,)) or np.ndim(loc) or np.ndim(scale):
            return real
        if self._observe():
            raise Unobservable("normal draw")
        z = self.normals[tape.choose(len(self.normals), "normal")]
        v = loc + scale * z
        self.log.append(("n", v))
        return v if size is None else np.array([v])

    def choice(self, a, size=None, replace=True, p=None):
        self._busy = True  # the C implementation calls self.random_sample etc.
        try:
            real = super().choice(a, size=size, replace=replace, p=p)
        finally:
            self._busy = False
        tape = self._tape()
        if tape is None or replace or "choice" not in self.scripted:
            return real
        pool = np.arange(a) if np.ndim(a) == 0 else np.asarray(a)
        n = len(pool)
        w = np.ones(n) if p is None else np.asarray(p, dtype=float)
        k = 1 if size is None else int(np.prod(size))
        alive = [i for i in range(n) if w[i] > 0]
        if self._observe():
            vals = [x for x in np.ravel(real)]
            pl = pool.tolist()
            if len(set(pl)) != len(pl):
                raise Unobservable("choice over non-unique values")
            for v in vals:
                pos = pl.index(v)
                tape.points.append((len(alive), alive.index(pos), "choice")) if len(alive) > 1 else None
                alive.remove(pos)
            return real
        picks = []
        for _ in range(k):
            c = tape.choose(len(alive), "choice")
            picks.append(alive.pop(c))
        self.log.append(("choice", tuple(picks)))
        res = pool[np.array(picks, dtype=int)]
        if size is None:
            return res[0]
        return res.reshape(np.shape(real))


def _rebuild_taperng(state, scripted, scalars, normals, full_upto):
    r = TapeRNG(0, None, scripted, scalars, normals, full_upto)
    r.set_state(state)
    return r


# --------------------------------------------------------------------------
# stream model of a generator (used for stateful stream subjects)
# --------------------------------------------------------------------------
class StreamRNG(np.random.RandomState):
    """Model of a random generator as a lazily decided *stream*: the value at
    stream position p is decided by the tape the first time it is read and
    is the same whenever position p is read again (after `set_state` went
    back). `get_state` / `set_state` save and restore the position, so code
    that simulates draws and restores the generator sees the same numbers
    again, exactly like the real generator; code that forgets to restore
    sees fresh (explorer-chosen) numbers.

    * random_sample(size) / random(size) / rand(): each element is one stream
      position in *region mode*: the tape picks one representative from
      `self.scalars` (midpoints of the regions between the comparison
      thresholds of the configuration), so every outcome of every comparison
      is produced.
    * normal(loc, scale): one position, value loc + scale * z with z from
      `self.normals`.
    Everything else is unsupported (raises), so an un-modelled draw cannot go
    unnoticed.

    Fingerprint: only decided values at positions >= the current position are
    observable in the future, so `canon_state` is that set relative to the
    position; two generators that differ only in consumed history merge.
    With `observe=<real RandomState>` the real generator supplies the values
    and their regions are recorded on the tape (conformance runs)."""

    def __init__(self, tape=None, thresholds=(0.5,), normals=(0.0, -2.0, 2.0), observe=None):
        super().__init__(0)
        self.tape = tape
        self.thresholds = tuple(sorted(set(float(t) for t in thresholds if 0.0 < t < 1.0)))
        edges = (0.0,) + self.thresholds + (1.0,)
        self.scalars = tuple((edges[i] + edges[i + 1]) / 2 for i in range(len(edges) - 1))
        self.normals = tuple(normals)
        self.pos = 0
        self.memo = {}
        self.real = observe

    # -- state --------------------------------------------------------------
    def get_state(self, legacy=True):
        if self.real is not None:
            return ("VERIF-STREAM", self.pos, self.real.get_state())
        return ("VERIF-STREAM", self.pos, None)

    def set_state(self, state):
        if not (isinstance(state, tuple) and state and state[0] == "VERIF-STREAM"):
            raise TypeError("StreamRNG.set_state: foreign state %r" % (state,))
        self.pos = state[1]
        if self.real is not None and state[2] is not None:
            self.real.set_state(state[2])

    def __deepcopy__(self, memo):
        import copy as _copy

        new = StreamRNG(self.tape, self.thresholds, self.normals, _copy.deepcopy(self.real))
        new.pos = self.pos
        new.memo = dict(self.memo)
        return new

    def __reduce__(self):
        return (_rebuild_streamrng, (self.thresholds, self.normals, self.pos, dict(self.memo)))

    def canon_state(self):
        return tuple(sorted((p - self.pos, k, a) for (p, k), a in self.memo.items() if p >= self.pos))

    def _tape(self):
        return self.tape if self.tape is not None else _STATE["tape"]

    # -- draws --------------------------------------------------------------
    def _region(self, v):
        r = 0
        for t in self.thresholds:
            if v > t:
                r += 1
        return r

    def _one(self, kind):
        key = (self.pos, kind)
        self.pos += 1
        alphabet = self.scalars if kind == "u" else self.normals
        if self.real is not None:
            if kind == "u":
                v = float(np.random.RandomState.random_sample(self.real))
                a = self._region(v)
            else:
                raise Unobservable("normal draw cannot be mapped to a region")
            if key in self.memo:
                return self.memo[key][1]
            tp = self._tape()
            if tp is not None and len(alphabet) > 1:
                tp.points.append((len(alphabet), a, kind))
            self.memo[key] = (a, v)
            return v
        if key not in self.memo:
            tp = self._tape()
            a = tp.choose(len(alphabet), kind) if tp is not None else 0
            self.memo[key] = (a, alphabet[a])
        return self.memo[key][1]

    def random_sample(self, size=None):
        if size is None:
            return self._one("u")
        n = int(np.prod(size))
        return np.array([self._one("u") for _ in range(n)], dtype=float).reshape(size)

    random = random_sample

    def rand(self, *dims):
        return self.random_sample(dims if dims else None)

    def normal(self, loc=0.0, scale=1.0, size=None):
        if size is not None:
            raise NotImplementedError("StreamRNG.normal with size")
        return loc + scale * self._one("n")

    def randint(self, low, high=None, size=None, dtype=int):
        # used once to derive the seed of a nested budget manager; constant
        if size is not None:
            raise NotImplementedError("StreamRNG.randint with size")
        return 12345

    def choice(self, *a, **k):
        raise NotImplementedError("StreamRNG.choice")

    def permutation(self, *a, **k):
        raise NotImplementedError("StreamRNG.permutation")

    def shuffle(self, *a, **k):
        raise NotImplementedError("StreamRNG.shuffle")

    def uniform(self, *a, **k):
        raise NotImplementedError("StreamRNG.uniform")


def _rebuild_streamrng(thresholds, normals, pos, memo):
    r = StreamRNG(None, thresholds, normals)
    r.pos = pos
    r.memo = memo
    return r
