"""Per-shard accumulator of coverage counters and violations."""
import json

import numpy as np

from .fingerprint import short


def jsonable(x):
    """Convert arrays / numpy scalars / NaN / None to JSON-safe structures that
    `unjson` can turn back into arrays."""
    if isinstance(x, np.ndarray):
        if x.dtype == object:
            return {"__nd__": "object", "data": [jsonable(v) for v in x.tolist()]}
        return {"__nd__": str(x.dtype), "data": jsonable(x.tolist())}
    if isinstance(x, (np.floating, float)):
        x = float(x)
        if x != x:
            return {"__f__": "nan"}
        if x in (float("inf"), float("-inf")):
            return {"__f__": "inf" if x > 0 else "-inf"}
        return x
    if isinstance(x, (np.integer,)):
        return int(x)
    if isinstance(x, (np.bool_,)):
        return bool(x)
    if isinstance(x, (np.str_,)):
        return str(x)
    if isinstance(x, dict):
        return {str(k): jsonable(v) for k, v in x.items()}
    if isinstance(x, (list, tuple)):
        return [jsonable(v) for v in x]
    if x is None or isinstance(x, (bool, int, str)):
        return x
    return repr(x)


def unjson(x):
    if isinstance(x, dict):
        if "__f__" in x:
            return float(x["__f__"])
        if "__nd__" in x:
            data = unjson(x["data"])
            if x["__nd__"] == "object":
                return np.array(data, dtype=object)
            return np.array(data, dtype=x["__nd__"])
        return {k: unjson(v) for k, v in x.items()}
    if isinstance(x, list):
        return [unjson(v) for v in x]
    return x


class Acc:
    MAX_PER_GROUP = 2

    def __init__(self):
        self.evaluations = 0
        self.transitions = 0
        self.states = 0
        self.traces_validated = 0
        self.trivial = 0
        self.nontrivial = set()
        self.outcomes = set()
        self.samples = []
        self.groups = {}  # (subject, kind, finding_key) -> {count, witnesses}
        self.caps = []
        self.exhaustive = True
        self.rejections = {}
        self.engine_errors = []
        self.extra = {}

    # ---- coverage -------------------------------------------------------
    def case(self, key, trivial=False):
        """Register one enumerated case; returns True if it is new."""
        self.evaluations += 1
        if trivial:
            self.trivial += 1
            return False
        k = short(key)
        if k in self.nontrivial:
            return False
        self.nontrivial.add(k)
        return True

    def outcome(self, x):
        self.outcomes.add(short(x))

    def sample(self, x, limit=2):
        if len(self.samples) < limit:
            self.samples.append(jsonable(x))

    def reject(self, what):
        self.rejections[what] = self.rejections.get(what, 0) + 1

    def cap(self, what):
        self.caps.append(what)
        self.exhaustive = False

    def engine_error(self, msg):
        if len(self.engine_errors) < 20:
            self.engine_errors.append(msg)

    def count(self, name, n=1):
        self.extra[name] = self.extra.get(name, 0) + n

    # ---- violations -----------------------------------------------------
    def violation(self, subject, kind, detail, witness, preds=None, replay=None, size=0, unit_test=None):
        """Record a violation. `preds` are the predicate values of this case
        used by the known-finding matcher; `replay` is the JSON spec that the
        check module's replay() re-executes."""
        preds = preds or {}
        pk = tuple(sorted((k, v) for k, v in preds.items() if isinstance(v, (bool, str, int))))
        g = self.groups.setdefault((subject, kind, pk), {"count": 0, "witnesses": []})
        g["count"] += 1
        w = {
            "subject": subject,
            "kind": kind,
            "detail": detail,
            "witness": jsonable(witness),
            "preds": jsonable(preds),
            "replay": jsonable(replay),
            "size": size,
            "unit_test": unit_test,
        }
        ws = g["witnesses"]
        ws.append(w)
        ws.sort(key=lambda v: (v["size"], json.dumps(v["witness"], sort_keys=True, default=repr)))
        del ws[self.MAX_PER_GROUP:]

    # ---- transport ------------------------------------------------------
    def to_dict(self):
        return self.__dict__

    def merge(self, other):
        o = other if isinstance(other, dict) else other.__dict__
        for k in ("evaluations", "transitions", "states", "traces_validated", "trivial"):
            setattr(self, k, getattr(self, k) + o[k])
        self.nontrivial |= o["nontrivial"]
        self.outcomes |= o["outcomes"]
        for s in o["samples"]:
            if len(self.samples) < 4:
                self.samples.append(s)
        for key, g in o["groups"].items():
            mine = self.groups.setdefault(key, {"count": 0, "witnesses": []})
            mine["count"] += g["count"]
            ws = mine["witnesses"] + g["witnesses"]
            ws.sort(key=lambda v: (v["size"], json.dumps(v["witness"], sort_keys=True, default=repr)))
            mine["witnesses"] = ws[: self.MAX_PER_GROUP]
        self.caps += o["caps"]
        self.exhaustive = self.exhaustive and o["exhaustive"]
        for k, v in o["rejections"].items():
            self.rejections[k] = self.rejections.get(k, 0) + v
        self.engine_errors += o["engine_errors"]
        for k, v in o["extra"].items():
            self.extra[k] = self.extra.get(k, 0) + v
