"""Time horizon for a single real call, and the lasso detector (DESIGN 3.4)."""
import contextlib
import signal
import sys


class Horizon(Exception):
    """The call did not return within the horizon."""


class Lasso(Exception):
    """A deterministic loop revisited a loop state: proof of non-termination."""


@contextlib.contextmanager
def time_limit(seconds):
    def handler(signum, frame):
        raise Horizon("no result within %.1fs" % seconds)

    # the horizon is measured in CPU time of this process (ITIMER_PROF), so that a saturated machine cannot turn a slow but terminating
    # call into a reported non-termination; a generous wall-clock timer (20 x) remains as a backstop for calls that block without computing
    old_prof = signal.signal(signal.SIGPROF, handler)
    old_alrm = signal.signal(signal.SIGALRM, handler)
    signal.setitimer(signal.ITIMER_PROF, seconds)
    signal.setitimer(signal.ITIMER_REAL, 20 * seconds)
    try:
        yield
    finally:
        signal.setitimer(signal.ITIMER_PROF, 0)
        signal.setitimer(signal.ITIMER_REAL, 0)
        signal.signal(signal.SIGPROF, old_prof)
        signal.signal(signal.SIGALRM, old_alrm)


def chunks(seq, n):
    """Split a list into n nearly equal consecutive parts (deterministic)."""
    seq = list(seq)
    n = max(1, min(n, len(seq)))
    k, m = divmod(len(seq), n)
    out, i = [], 0
    for j in range(n):
        sz = k + (1 if j < m else 0)
        out.append(seq[i:i + sz])
        i += sz
    return out


@contextlib.contextmanager
def loop_lasso(code_filename_suffix, func_name, state_of, max_iter=100000):
    """Trace the function `func_name` defined in a file ending with
    `code_filename_suffix`; at every executed line that is the header of a
    `while` loop (detected as a line executed more than once) record
    `state_of(frame.f_locals)`; a repeated state on the same line raises
    Lasso. Deterministic loop body assumed (stated in DESIGN)."""
    seen = {}

    def local(frame, event, arg):
        if event == "line":
            key = frame.f_lineno
            try:
                st = state_of(frame.f_locals)
            except Exception:
                return local
            if st is None:
                return local
            s = seen.setdefault(id(frame), {}).setdefault(key, set())
            if st in s and key in loop_lasso.headers.get((code_filename_suffix, func_name), ()):  # repeated
                raise Lasso("loop state repeated at %s:%d: %r" % (code_filename_suffix, key, st))
            s.add(st)
        return local

    def tracer(frame, event, arg):
        if event == "call":
            co = frame.f_code
            if co.co_name == func_name and co.co_filename.endswith(code_filename_suffix):
                return local
        return None

    old = sys.gettrace()
    sys.settrace(tracer)
    try:
        yield
    finally:
        sys.settrace(old)


loop_lasso.headers = {}
