"""Executing one pool query under the explorer's control + the reference
model of the candidate set and the C01 / C02 oracles."""
import itertools
import warnings

import numpy as np

from . import tape as T
from .guard import Horizon, time_limit

GLOBAL_SEED = 424242


def rng_factory(rs):
    return T.TapeRNG.like(rs, scripted=("choice",))


def run_query(subj, X, y, cand, bs, tape, mode="substitute", return_utilities=True, missing_label=float("nan"),
              classes=(0, 1), seed=0, qs=None, kw=None, horizon=30.0, own_rng=True):
    """Returns ('ok', idx, utils) | ('exc', exception)."""
    np.random.seed(GLOBAL_SEED)
    with warnings.catch_warnings():
        warnings.simplefilter("ignore")
        try:
            if qs is None:
                qs = subj.make(seed, missing_label, classes)
            if kw is None:
                kw = subj.query_kwargs(X, missing_label, classes)
            c = None if cand is None else np.array(cand)
            with T.ties(tape, mode), T.rng_override(rng_factory if own_rng else None), time_limit(horizon):
                res = qs.query(X.copy(), y.copy(), candidates=c, batch_size=bs, return_utilities=return_utilities, **kw)
        except Horizon as e:
            return ("timeout", e)
        except T.Divergence:
            raise
        except Exception as e:  # judged by the oracle
            return ("exc", e)
    if return_utilities:
        return ("ok", res[0], res[1])
    return ("ok", res, None)


# --------------------------------------------------------------------------
# reference model of candidates
# --------------------------------------------------------------------------
def unlabeled(lab):
    return [i for i, v in enumerate(lab) if v is None]


def candidate_modes(subj, lab, tier, nfeat):
    """Yield (mode, cand) where cand is None | list of indices | ('rows', idx list, with_foreign)."""
    u = unlabeled(lab)
    n = len(lab)
    out = []
    if not u:
        return out
    out.append(("none", None))
    subsets = []
    if tier == "thorough" and len(u) <= 3:
        for r in range(1, len(u) + 1):
            subsets += [list(c) for c in itertools.combinations(u, r)]
    elif tier == "thorough":
        # more than three unlabeled samples: all of them, every single one, every pair, and the complement of every single one
        subsets.append(list(u))
        subsets += [[i] for i in u] + [list(c) for c in itertools.combinations(u, 2)] + [[j for j in u if j != i] for i in u]
    else:
        subsets.append(list(u))
        if len(u) > 1:
            subsets.append([u[-1]])
            subsets.append([u[0]])
        if len(u) > 2:
            subsets.append(u[1:])
            subsets.append([u[0], u[-1]])
    seen = set()
    for s in subsets:
        if tuple(s) not in seen:
            seen.add(tuple(s))
            out.append(("idx", s))
    if subj.arbitrary_idx:
        lbl = [i for i in range(n) if i not in u]
        extra = []
        if lbl:
            if tier == "thorough" and n <= 4:
                for r in range(1, n + 1):
                    for c in itertools.combinations(range(n), r):
                        if any(i in lbl for i in c):
                            extra.append(list(c))
            else:
                extra.append(list(range(n)))
                extra.append([lbl[0], u[-1]])
                extra.append([lbl[-1]])
        for s in extra:
            out.append(("idx_any", s))
    out.append(("rows", ("rows", list(u), False)))
    out.append(("rows_foreign", ("rows", list(u), True)))
    return out


def materialise(cand, X):
    """cand spec -> the actual `candidates` argument and the reference
    candidate set in the index space of the result."""
    from subjects.pool import FOREIGN_ROW

    if cand is None:
        return None, None
    if isinstance(cand, (tuple, list)) and len(cand) == 3 and cand[0] == "rows":
        rows = X[list(cand[1])]
        if cand[2]:
            rows = np.vstack([rows, np.array([FOREIGN_ROW[X.shape[1]]])])
        return rows, list(range(len(rows)))
    return np.array(list(cand), dtype=int), sorted(set(int(i) for i in cand))


def reference_candidates(lab, cand_arg, cand_set):
    if cand_arg is None:
        return unlabeled(lab)
    return cand_set


# --------------------------------------------------------------------------
# oracles
# --------------------------------------------------------------------------
def judge_c01(idx, cset, bs, n_selectable=None):
    """Returns list of (kind, detail)."""
    out = []
    k = min(bs, len(cset) if n_selectable is None else n_selectable)
    a = np.asarray(idx)
    if a.ndim != 1:
        out.append(("result_not_1d", "indices have shape %s" % (a.shape,)))
        flat = [int(x) for x in a.ravel()] if a.dtype.kind in "iu" else []
    else:
        flat = None
    if a.dtype.kind not in "iu":
        if a.size == 0:
            pass
        else:
            out.append(("result_not_integer", "dtype %s" % a.dtype))
            return out
    vals = [int(x) for x in a.ravel()]
    if len(vals) != k:
        out.append(("wrong_batch_length", "returned %d indices %s, expected %d = min(batch_size=%d, n_candidates=%d%s)" % (
            len(vals), vals, k, bs, len(cset), "" if n_selectable is None else ", subset=%d" % n_selectable)))
    if len(set(vals)) != len(vals):
        out.append(("duplicate_index", "indices %s" % vals))
    bad = [v for v in vals if v not in cset]
    if bad:
        out.append(("non_candidate_selected", "indices %s not in candidate set %s" % (bad, list(cset))))
    return out


def judge_c02(idx, utils, cset, bs, n_cols, select):
    out = []
    a = np.asarray(idx)
    if a.dtype.kind not in "iu" and a.size:
        return [("indices_unusable", "dtype %s" % a.dtype)]
    vals = [int(x) for x in a.ravel()]
    u = np.asarray(utils, dtype=float)
    if u.ndim != 2 or u.shape[1] != n_cols or u.shape[0] != len(vals):
        out.append(("utilities_shape", "utilities shape %s, expected (%d, %d) for picks %s" % (u.shape, len(vals), n_cols, vals)))
        if u.ndim != 2 or u.shape[1] != n_cols:
            return out
    cset = set(cset)
    for i in range(min(len(vals), u.shape[0])):
        row = u[i]
        sel = cset - set(vals[:i])
        nan_pos = set(int(j) for j in np.flatnonzero(np.isnan(row)))
        expect_nan = set(range(n_cols)) - sel
        if nan_pos != expect_nan:
            extra = sorted(nan_pos - expect_nan)
            missing = sorted(expect_nan - nan_pos)
            if extra:
                out.append(("nan_at_selectable", "row %d is NaN at selectable positions %s (picks %s, row %s)" % (i, extra, vals, row.tolist())))
            if missing:
                kind = "number_at_earlier_pick" if set(missing) <= set(vals[:i]) else "number_at_non_candidate"
                out.append((kind, "row %d has numbers at unselectable positions %s (picks %s, row %s)" % (i, missing, vals, row.tolist())))
        p = vals[i]
        if not (0 <= p < n_cols):
            continue
        if np.isnan(row[p]):
            if p not in sel:  # otherwise already reported as nan_at_selectable
                out.append(("pick_has_nan_utility", "step %d picked %d whose utility in row %d is NaN (picks %s, row %s)" % (i, p, i, vals, row.tolist())))
            continue
        if select == "max":
            with warnings.catch_warnings():
                warnings.simplefilter("ignore")
                m = np.nanmax(row)
            if not (row[p] == m):
                out.append(("pick_not_row_max", "step %d picked %d with utility %r but row max is %r (row %s)" % (i, p, row[p], m, row.tolist())))
        else:
            if not (row[p] > 0):
                out.append(("pick_without_mass", "step %d picked %d with mass %r (row %s)" % (i, p, row[p], row.tolist())))
    return out


def output_preds(utils, cset, n_cols):
    """Predicates of the *observed utilities* used to pin known findings to
    the specific situation in which they manifest."""
    p = {"tied_row_max": False, "allnan_row": False, "row_mass_deficit": False}
    try:
        u = np.asarray(utils, dtype=float)
        if u.ndim != 2:
            return p
        for i, row in enumerate(u):
            fin = row[~np.isnan(row)]
            if i >= 1 and fin.size and np.all(fin >= 0) and fin.sum() < 1 - 1e-6:
                # a row of sampling probabilities whose visible mass is < 1: the rest sits on an already selected (masked) sample
                p["row_mass_deficit"] = True
            if fin.size == 0:
                p["allnan_row"] = True
                continue
            if np.sum(fin == fin.max()) > 1:
                p["tied_row_max"] = True
    except Exception:
        pass
    return p
