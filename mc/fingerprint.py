"""Canonical fingerprints of Python / numpy / scikit-learn object state.

`canon(obj)` walks the *entire* mutable state of an object and returns a
nested tuple of plain hashable values; `fp(obj)` is its 16-byte digest.
Nothing is dropped; `fp_merge` additionally records which mutable sub-objects
are *the same object* (aliasing), because two states with equal values but
different sharing have different futures (an in-place update of one attribute
silently rewrites the other). State merging uses `fp_merge`, so it can only be
too fine, never too coarse (DESIGN 3.2); value comparisons between states that
were reached on different paths use `fp`.
"""
import collections
import hashlib
import types

import numpy as np


# MODE['rng']: 'merge' (live decided values relative to the position; for state merging) or 'pos' (stream position only; purity oracle)
# MODE['fdigits']: None = bit-exact floats; an int = floats rounded to that many significant digits (chunking comparisons)
# MODE['alias']: record object identity of mutable sub-objects reached twice (state merging)
MODE = {"rng": "merge", "fdigits": None, "alias": False}


def _rf(x):
    d = MODE["fdigits"]
    if d is None or x != x or x in (float("inf"), float("-inf")) or x == 0:
        return repr(x)
    return "%.*e" % (d - 1, x)


def _arr(a):
    a = np.asarray(a)
    if MODE["fdigits"] is not None and a.dtype.kind == "f":
        return ("ndarray-r", a.shape, tuple(_rf(float(x)) for x in a.ravel()))
    if a.dtype == object:
        return ("ndarray-o", a.shape, tuple(canon(x) for x in a.ravel().tolist()))
    # NaN payloads are normalised by going through repr for floats only when
    # the array is small; byte-wise otherwise (bit-exact equality is wanted).
    return ("ndarray", str(a.dtype), a.shape, np.ascontiguousarray(a).tobytes())


def canon(obj, _memo=None, _depth=0, skip=()):
    """Canonical, hashable form of `obj`. `skip` is a collection of attribute
    names that are left out at the *top level only*."""
    if _memo is None:
        _memo = {}
        if MODE["alias"]:
            _memo["alias"] = {}
            _memo["keep"] = []  # keeps registered objects alive, so that an id cannot be reused during the walk
    if obj is None or isinstance(obj, (bool, int, str, bytes)):
        return obj
    if isinstance(obj, float):
        return ("f", _rf(obj))
    if isinstance(obj, complex):
        return ("c", repr(obj))
    if isinstance(obj, np.generic):
        if obj.dtype.kind == "f":
            return ("f", _rf(float(obj)))
        return ("np", str(obj.dtype), repr(obj.item()) if obj.dtype != object else canon(obj.item()))
    al = _memo.get("alias")
    if al is not None and (isinstance(obj, (np.ndarray, list, dict, set, collections.deque, np.random.RandomState))
                           or (getattr(obj, "__dict__", None) is not None and not isinstance(
                               obj, (type, types.FunctionType, types.BuiltinFunctionType, types.MethodType, types.ModuleType)))):
        if id(obj) in al and id(obj) not in _memo:
            return ("alias", al[id(obj)])
        if id(obj) not in al:
            al[id(obj)] = len(al)
            _memo["keep"].append(obj)
    if isinstance(obj, np.ndarray):
        return _arr(obj)
    if isinstance(obj, np.random.RandomState) and hasattr(obj, "canon_state"):
        if MODE["rng"] == "pos":
            return ("StreamRNG-pos", obj.pos)
        return ("StreamRNG", obj.canon_state())
    if isinstance(obj, np.random.RandomState):
        st = obj.get_state(legacy=True)
        return ("RandomState", type(obj).__name__, st[0], st[1].tobytes(), st[2], st[3], repr(st[4]),
                canon(getattr(obj, "__dict__", None) and {k: v for k, v in obj.__dict__.items() if k != "tape"}, _memo, _depth + 1))
    if isinstance(obj, np.random.Generator):
        return ("Generator", repr(obj.bit_generator.state))
    oid = id(obj)
    if oid in _memo:
        return ("cycle", _memo[oid])
    if _depth > 40:
        raise RecursionError("canon: nesting deeper than 40")
    if isinstance(obj, (list, tuple, collections.deque)):
        _memo[oid] = len(_memo)
        r = (type(obj).__name__,) + tuple(canon(x, _memo, _depth + 1) for x in obj)
        if isinstance(obj, collections.deque):
            r = r + (("maxlen", obj.maxlen),)
        del _memo[oid]
        return r
    if isinstance(obj, dict):
        _memo[oid] = len(_memo)
        items = [(canon(k, _memo, _depth + 1), canon(v, _memo, _depth + 1)) for k, v in obj.items()]
        try:
            items.sort(key=lambda kv: repr(kv[0]))
        except Exception:
            pass
        del _memo[oid]
        return (type(obj).__name__,) + tuple(items)
    if isinstance(obj, (set, frozenset)):
        return ("set",) + tuple(sorted((canon(x, _memo, _depth + 1) for x in obj), key=repr))
    if isinstance(obj, (types.FunctionType, types.BuiltinFunctionType, types.MethodType, type)):
        return ("callable", getattr(obj, "__module__", None), getattr(obj, "__qualname__", repr(obj)))
    if isinstance(obj, np.ufunc):
        return ("ufunc", obj.__name__)
    # scipy sparse
    if hasattr(obj, "tocsr") and hasattr(obj, "toarray"):
        return ("sparse", type(obj).__name__, _arr(obj.toarray()))
    # scipy frozen distributions
    if hasattr(obj, "dist") and hasattr(obj, "args") and hasattr(obj, "kwds"):
        _memo[oid] = len(_memo)
        r = ("rv_frozen", type(obj.dist).__name__, canon(obj.args, _memo, _depth + 1), canon(obj.kwds, _memo, _depth + 1))
        del _memo[oid]
        return r
    d = getattr(obj, "__dict__", None)
    if d is not None:
        _memo[oid] = len(_memo)
        items = []
        for k in sorted(d):
            if _depth == 0 and k in skip:
                continue
            items.append((k, canon(d[k], _memo, _depth + 1)))
        slots = getattr(type(obj), "__slots__", ())
        for k in slots if isinstance(slots, (list, tuple)) else ():
            if hasattr(obj, k):
                items.append((k, canon(getattr(obj, k), _memo, _depth + 1)))
        del _memo[oid]
        return ("obj", type(obj).__module__, type(obj).__qualname__) + tuple(items)
    if hasattr(obj, "__getstate__"):
        try:
            st = obj.__getstate__()
            if st is not None:
                return ("state", type(obj).__qualname__, canon(st, _memo, _depth + 1))
        except Exception:
            pass
    return ("repr", type(obj).__qualname__, repr(obj))


def digest(c):
    return hashlib.blake2b(repr(c).encode("utf8", "backslashreplace"), digest_size=12).hexdigest()


def fp(obj, skip=()):
    return digest(canon(obj, skip=skip))


def fp_merge(obj, skip=()):
    """fingerprint for state merging: values plus the sharing structure of mutable sub-objects"""
    old = MODE["alias"]
    MODE["alias"] = True
    try:
        return digest(canon(obj, skip=skip))
    finally:
        MODE["alias"] = old


def attr_fps(obj):
    """Per-attribute fingerprints, recursively flattened for nested estimator
    objects: {'a': fp, 'budget_manager_.u_t_': fp, ...}. Used by the purity
    oracle, which compares only attributes that already existed."""
    out = {}

    def walk(o, prefix, depth):
        d = getattr(o, "__dict__", None)
        if d is None:
            return
        for k, v in d.items():
            name = prefix + k
            if hasattr(v, "get_params") and hasattr(v, "__dict__") and depth < 4:
                out[name + "#type"] = type(v).__qualname__
                walk(v, name + ".", depth + 1)
            else:
                out[name] = digest(canon(v))

    walk(obj, "", 0)
    return out


def _param_value(v, depth=0):
    """Parameter values are compared by value; estimator-valued parameters by
    type and by their own parameters (their fitted state is not a parameter)."""
    if hasattr(v, "get_params") and not isinstance(v, type):
        try:
            return ("estimator", type(v).__qualname__, tuple(sorted((k, _param_value(x, depth + 1)) for k, x in v.get_params(deep=False).items()))
                    if depth < 4 else ())
        except Exception:
            return ("estimator", type(v).__qualname__)
    if isinstance(v, (list, tuple)) and any(hasattr(x, "get_params") or isinstance(x, (list, tuple)) for x in v):
        return (type(v).__name__,) + tuple(_param_value(x, depth + 1) for x in v)
    return canon(v)


def params_dict_fp(est):
    return {k: digest(_param_value(v)) for k, v in est.get_params(deep=True).items()}


def params_fp(est):
    """Fingerprint of get_params(deep=True) including dict contents."""
    return digest(tuple(sorted(params_dict_fp(est).items())))


def short(x, n=8):
    return hashlib.blake2b(repr(x).encode("utf8", "backslashreplace"), digest_size=n).digest()
