"""Runner: ./run.sh check <Cxx> [quick|thorough] | replay <path> | setup

Contract (MANIFEST): exit 0 if the property held on everything explored
(known findings are printed as `KNOWN-FINDING: property=<id> ...`), exit 1
with `VIOLATION property=<id> replay=<path>` for every violation that
/verif/known_findings.json does not list, exit 2 for engine errors (harness
problems; never used for property violations).
"""
import fnmatch
import hashlib
import importlib
import json
import multiprocessing as mp
import os
import subprocess
import sys
import time
import traceback

HOME = os.environ.get("VERIF_HOME", os.path.dirname(os.path.dirname(os.path.abspath(__file__))))
NPROC = int(os.environ.get("VERIF_NPROC", "16"))


def _load(pid):
    return importlib.import_module("checks." + pid.lower())


def _worker_init():
    import warnings

    warnings.simplefilter("ignore")
    try:
        import numpy as np

        np.seterr(all="ignore")
    except Exception:
        pass


def _run_shard(args):
    pid, spec = args
    from .acc import Acc

    try:
        mod = _load(pid)
        acc = mod.run_shard(spec)
        return acc.to_dict()
    except BaseException as e:  # engine error, not a violation
        acc = Acc()
        acc.engine_error("shard %r crashed: %s\n%s" % (spec, e, traceback.format_exc()[-3000:]))
        return acc.to_dict()


def _run_replay(args):
    pid, spec = args
    from .acc import unjson

    try:
        mod = _load(pid)
        out = mod.replay(unjson(spec))
        return sorted(set((s, k) for s, k in out))
    except BaseException as e:
        return "ERR %s\n%s" % (e, traceback.format_exc()[-2000:])


def load_findings():
    p = os.path.join(HOME, "known_findings.json")
    if not os.path.exists(p):
        return {"findings": [], "fixed": []}
    with open(p) as f:
        return json.load(f)


def match_finding(findings, pid, w):
    for f in findings:
        if f.get("property") != pid or f.get("status", "open") != "open":
            continue
        pats = f["subject"] if isinstance(f["subject"], list) else [f["subject"]]
        if not any(w["subject"] == pat or (pat.endswith("*") and w["subject"].startswith(pat[:-1])) for pat in pats):
            continue
        kinds = f["kind"] if isinstance(f["kind"], list) else [f["kind"]]
        if w["kind"] not in kinds:
            continue
        ok = True
        for k, v in (f.get("requires") or {}).items():
            have = w["preds"].get(k)
            if isinstance(v, str) and v.startswith("prefix:"):
                if not (isinstance(have, str) and have.startswith(v[7:])):
                    ok = False
                    break
            elif have != v:
                ok = False
                break
        if ok:
            return f
    return None


def write_replay(pid, w):
    d = os.path.join(HOME, "replays", pid)
    os.makedirs(d, exist_ok=True)
    body = {
        "property": pid,
        "subject": w["subject"],
        "kind": w["kind"],
        "detail": w["detail"],
        "witness": w["witness"],
        "preds": w["preds"],
        "replay": w["replay"],
        "unit_test": w.get("unit_test"),
        "how_to_replay": "./run.sh replay <this file>",
    }
    s = json.dumps(body, indent=1, sort_keys=True, default=repr)
    h = hashlib.blake2b(s.encode(), digest_size=6).hexdigest()
    path = os.path.join(d, "%s-%s-%s.json" % (w["subject"].replace("/", "_").replace(" ", "")[:60], w["kind"][:40], h))
    with open(path, "w") as f:
        f.write(s)
    return path


def validate_evidence(path):
    """Validate with jsonschema from the tooling venv when available."""
    schema = "/root/.vp/EVIDENCE.schema.json"
    if not os.path.exists(schema):
        return None
    code = (
        "import json,sys,jsonschema;"
        "jsonschema.validate(json.load(open(sys.argv[1])), json.load(open(sys.argv[2])))"
    )
    for py in ("python3-vt", "/opt/veriftools/pyvenv/bin/python"):
        try:
            r = subprocess.run([py, "-c", code, path, schema], capture_output=True, text=True, timeout=60)
        except Exception:
            continue
        if r.returncode == 0:
            return True
        if "ModuleNotFoundError" in r.stderr:
            continue
        print("EVIDENCE-INVALID", r.stderr[-800:])
        return False
    return None


def do_check(pid, tier):
    from .acc import Acc

    t0 = time.time()
    seed = int(os.environ.get("VERIF_SEED", "0") or 0)
    os.environ["VERIF_SEED"] = str(seed)
    mod = _load(pid)
    shards = mod.shards(tier, seed)
    # deterministic hand-out order depending on the seed only
    order = sorted(range(len(shards)), key=lambda i: hashlib.md5(("%d:%d" % (seed, i)).encode()).hexdigest())
    # expensive shards first if the module says so
    if hasattr(mod, "shard_cost"):
        order.sort(key=lambda i: -mod.shard_cost(shards[i]))
    total = Acc()
    import shutil

    shutil.rmtree(os.path.join(HOME, "replays", pid), ignore_errors=True)
    nproc = max(1, min(NPROC, len(shards)))
    ctx = mp.get_context("fork")
    with ctx.Pool(nproc, initializer=_worker_init) as pool:
        for d in pool.imap_unordered(_run_shard, [(pid, shards[i]) for i in order], chunksize=1):
            total.merge(d)
        findings_db = load_findings()
        findings = findings_db.get("findings", [])
        unknown, known = [], {}
        unk = {}
        for (subject, kind, _pk), g in sorted(total.groups.items(), key=lambda kv: repr(kv[0])):
            w0 = g["witnesses"][0]
            f = match_finding(findings, pid, w0)
            if f is None:
                # report one line per (subject, kind): smallest witness over all predicate groups
                u = unk.setdefault((subject, kind), [{"count": 0}, w0])
                u[0]["count"] += g["count"]
                if (w0["size"], json.dumps(w0["witness"], sort_keys=True, default=repr)) < (
                    u[1]["size"], json.dumps(u[1]["witness"], sort_keys=True, default=repr)):
                    u[1] = w0
            else:
                k = known.setdefault(f["id"], {"finding": f, "count": 0, "witness": w0})
                k["count"] += g["count"]
        unknown = [(g, w) for (g, w) in unk.values()]
        # replay every unknown witness (and one per known finding) twice
        to_replay = [w for _g, w in unknown] + [k["witness"] for k in known.values()]
        replay_failures = []
        if hasattr(mod, "replay") and to_replay:
            jobs = [(pid, w["replay"]) for w in to_replay for _ in (0, 1)]
            res = pool.map(_run_replay, jobs, chunksize=1)
            for i, w in enumerate(to_replay):
                a, b = res[2 * i], res[2 * i + 1]
                want = (w["subject"], w["kind"])
                if isinstance(a, str) or isinstance(b, str) or a != b or list(want) not in [list(x) for x in a]:
                    replay_failures.append((w, a, b))
    for w, a, b in replay_failures:
        total.engine_error(
            "violation %s/%s did not replay identically twice: %r vs %r (spec %s)"
            % (w["subject"], w["kind"], a, b, json.dumps(w["replay"])[:400])
        )
    wall = time.time() - t0

    # ---- report ----------------------------------------------------------
    lines = []
    n_viol = 0
    if not replay_failures:
        for g, w in unknown:
            path = write_replay(pid, w)
            n_viol += 1
            lines.append("VIOLATION property=%s replay=%s" % (pid, path))
            lines.append("  subject=%s kind=%s cases=%d :: %s" % (w["subject"], w["kind"], g["count"], w["detail"][:600]))
    for fid, k in sorted(known.items()):
        lines.append("KNOWN-FINDING: property=%s %s [%s; %d cases in this run]" % (pid, k["finding"]["what"], fid, k["count"]))

    meta = getattr(mod, "META", {})
    cov = {
        "states": max(total.states, 0),
        "transitions": max(total.transitions, 0),
        "traces_validated_against_impl": total.traces_validated,
        "evaluations": total.evaluations,
        "distinct_nontrivial": len(total.nontrivial),
        "trivial_cases": total.trivial,
        "distinct_outcomes": len(total.outcomes),
        "rule": meta.get("rule", ""),
        "samples": total.samples[:4] or [{"note": "no sample recorded"}],
        "exhaustive": bool(total.exhaustive and not total.caps),
        "caps_hit": total.caps[:20],
        "bounds": mod.bounds(tier) if hasattr(mod, "bounds") else {},
        "shards": len(shards),
        "documented_rejections": dict(sorted(total.rejections.items())),
        "known_findings": [
            {"id": fid, "cases": k["count"], "what": k["finding"]["what"]} for fid, k in sorted(known.items())
        ],
        "unlisted_violation_groups": [
            {"subject": w["subject"], "kind": w["kind"], "cases": g["count"], "detail": w["detail"][:300]} for g, w in unknown
        ],
        "engine_errors": total.engine_errors[:5],
        "counters": dict(sorted(total.extra.items())),
    }
    if cov["states"] == 0:
        cov["states"] = len(total.nontrivial)
    if cov["transitions"] == 0:
        cov["transitions"] = total.evaluations
    ev = {
        "property_id": pid,
        "tier": tier,
        "seed": seed,
        "level": "model_checking",
        "coverage": cov,
        "assumptions": meta.get("assumptions", []),
        "wall_s": round(wall, 2),
        "violations": n_viol,
    }
    scratch = os.path.realpath(os.environ.get("VERIF_REPO", "/repo")) != "/repo"
    # runs against a scratch worktree (mutation testing) must not overwrite the evidence of the real tree
    evdir = os.path.join(HOME, "evidence_scratch" if scratch else "evidence")
    os.makedirs(evdir, exist_ok=True)
    evpath = os.path.join(evdir, pid + ".json")
    with open(evpath, "w") as f:
        json.dump(ev, f, indent=1, sort_keys=True, default=repr)
    ok = validate_evidence(evpath)
    if tier == "thorough" and not scratch:
        # the last thorough run is kept next to the evidence file, which the next quick run rewrites
        os.makedirs(os.path.join(HOME, "evidence_thorough"), exist_ok=True)
        with open(os.path.join(HOME, "evidence_thorough", pid + ".json"), "w") as f:
            json.dump(ev, f, indent=1, sort_keys=True, default=repr)
    for ln in lines:
        print(ln)
    print(
        "%s %s seed=%d: shards=%d evaluations=%d distinct_nontrivial=%d states=%d transitions=%d "
        "traces_validated=%d outcomes=%d exhaustive=%s violations=%d known=%d engine_errors=%d wall=%.1fs"
        % (
            pid, tier, seed, len(shards), total.evaluations, len(total.nontrivial), cov["states"], cov["transitions"],
            total.traces_validated, len(total.outcomes), cov["exhaustive"], n_viol, len(known), len(total.engine_errors), wall,
        )
    )
    if total.engine_errors:
        for e in total.engine_errors[:5]:
            print("ENGINE-ERROR:", e[:3000])
        return 2
    if ok is False:
        return 2
    return 1 if n_viol else 0


def do_replay(path):
    from .acc import unjson

    with open(path) as f:
        body = json.load(f)
    pid = body["property"]
    mod = _load(pid)
    spec = unjson(body["replay"])
    a = sorted(set(mod.replay(spec)))
    b = sorted(set(mod.replay(spec)))
    print("replay 1:", a)
    print("replay 2:", b)
    if a != b:
        print("REPLAY-NONDETERMINISTIC")
        return 2
    if (body["subject"], body["kind"]) in a:
        print("VIOLATION property=%s replay=%s" % (pid, path))
        return 1
    print("replay: violation not reproduced (property holds on this artefact now)")
    return 0


def main(argv):
    if not argv:
        print(__doc__)
        return 2
    cmd = argv[0]
    if cmd == "setup":
        import numpy, sklearn, scipy  # noqa
        import skactiveml  # noqa

        print("setup ok: skactiveml from", os.path.dirname(skactiveml.__file__))
        return 0
    if cmd == "check":
        pid = argv[1].upper()
        tier = os.environ.get("VERIF_TIER") or (argv[2] if len(argv) > 2 else "quick")
        if tier not in ("quick", "thorough"):
            tier = "quick"
        return do_check(pid, tier)
    if cmd == "replay":
        return do_replay(argv[1])
    print("unknown command", cmd)
    return 2


if __name__ == "__main__":
    sys.exit(main(sys.argv[1:]))
